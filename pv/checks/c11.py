"""C11 -- Random-effect algebra keeps names, variances and a valid covariance.

Four sub-checks:

rv_algebra   histories of join / unjoin / __getitem__ / subs / + / replace on collections of
             Normal / JointNormal distributions, compared after every step with a reference
             model (pv/ref/rvref.py: name -> (level, block) + dense symbolic covariance table).
psd_repair   Model.create / Model.replace(parameters | random_variables) and
             internals.math.{is_positive_semidefinite, nearest_positive_semidefinite} on
             numeric symmetric matrices of the classes PD-with-margin / clearly indefinite /
             near-singular.
conversions  RandomVariables.parameters_sdcorr, internals.math.cov2corr/corr2cov and the
             modeling.calculate_{se,corr,cov,prec}_from_* family against own formulas, pairwise
             inverse on PD matrices.
ucp          calculate_parameters_from_ucp(M, calculate_ucp_scale(M), {p: 0.1}) == inits(M).
joint_model  create_joint_distribution / split_joint_distribution on parsed NONMEM models whose etas may share a
             statement: the reference model is compared after every step; every lower-triangle element of a joint
             block is its own parameter of the model (n(n+1)/2 distinct names), blocks PSD, valid inits unaltered.

Tolerances (stated): entries of symbolic tables are compared exactly; numeric comparisons use
1e-9 relative to the magnitude of the matrix (max |entry|) unless said otherwise; the PSD
verdict uses min eig >= -1e-10*||A||_F; "PD with margin"/"clearly indefinite" mean
|min eig| >= 1e-6*||A||_F, everything in between is the near-singular class for which
"unchanged" is not judged.
"""

from __future__ import annotations

import math

import numpy as np
from hypothesis import strategies as st

from ..core import CaseInfo, HarnessError, Reject, SubCheck, Violation, guard
from ..ref import rvref
from ..ref.rvref import ZERO, RefRVs, is_zero

PROPERTY = 'C11'
LEVEL = 'exploration'
RULE = (
    'rv_algebra: 1-6 variables X1..X6 laid out into Normal/JointNormal distributions (levels IIV/IOV/RUV per '
    'distribution; variances symbols V_<name> (IOV may share V_SH) or numbers, covariances symbols C_<a>_<b> or '
    'numbers incl. 0, means 0 or symbols) and a history of <=6 operations out of join(fill 0 | number | symbol | '
    'name_template), unjoin(str | list | symbols), [list of names | symbols], [slice], [int | str], subs(parameter '
    '-> symbol | number, variable rename), + (Normal | Joint | RandomVariables | list, left and right), replace(dists); '
    'the reference model is compared after every step. Non-trivial = >=4 variables and a step that removes a '
    'variable from the middle of a block or joins across two distributions. '
    'psd_repair: symmetric matrices n<=6 from 8 constructions x 5 scales; non-trivial = clearly indefinite. '
    'conversions: PD matrices n<=6 (margin >= 1e-3 relative); non-trivial = n>=3 with a joint block. '
    'ucp: models with 0-3 thetas (bounded/unbounded/fixed), 1-3 eta blocks and 1-2 epsilon blocks (sizes 1-3) whose '
    'inits are L L^T for generated lower triangular L; non-trivial = a non-fixed block whose Cholesky factor has a '
    'non-zero off-diagonal element (class negative_cholesky_offdiag counts the negative ones). '
    'joint_model: NM-TRAN models with 2-5 etas placed into 1-4 parameter statements P1..Pk (several etas may sit in '
    'one statement, an eta may sit in two, or directly in Y), $OMEGA layout of single and BLOCK records, history of '
    '<=3 create_joint_distribution(list | None) / split_joint_distribution steps; non-trivial = a create step that '
    'joins etas used by the same statement(s). Distinct = (shape signature, resolved operation sequence) / hash of the spec.'
)
ASSUMPTIONS = [
    'numpy.linalg.eigh / eigvalsh / cholesky / inv are trusted for the reference computations',
    'join is only applied to >=2 variables of one variability level given as strings (what create_joint_distribution does); '
    'fill and name_template are never passed together (the docstring and the code disagree on which wins; outside the property)',
    'join(name_template=..., param_names=...) gets param_names in collection order of the joined variables',
    'subs dictionaries map symbols to fresh symbols or numbers (no chained/swapping substitutions)',
    'UCP: thetas lie strictly inside their bounds, covariance blocks are positive definite with margin and blocks are '
    'fixed as a whole; the tolerance for thetas adds 16*eps*(|lower|+range) for the cancellation in prop*range+lower '
    '(bounds are clipped to +-1e6 by the function)',
    'matrices in the band |min eig| < 1e-6*||A||_F are only required to come out PSD (>= -1e-10*||A||_F), symmetric '
    'and close to A; whether they count as "valid, never altered" is not judged',
]

LEVELS = ['IIV', 'IIV', 'IIV', 'IOV', 'RUV']


# ------------------------------------------------------------------------------------------
# helpers shared by sub-checks


def _int(x):
    if isinstance(x, bool):
        return int(x)
    if isinstance(x, int):
        return x
    if isinstance(x, float) and x == x and abs(x) < 1e9:
        return int(x)
    if isinstance(x, (list, str)):
        return len(x)
    return 0


def _ilist(x):
    if isinstance(x, list):
        return [_int(v) for v in x]
    return [_int(x)]


def _get(spec, key, default):
    if isinstance(spec, dict) and key in spec and spec[key] is not None:
        return spec[key]
    return default


def to_arg(e):
    """reference entry -> value handed to the library"""
    from pharmpy.basic import Expr

    if e[0] == 's':
        return Expr.symbol(e[1])
    if e[0] == 'n':
        return 0 if e[1] == 0.0 else float(e[1])
    raise HarnessError(f'cannot build {e}')


def from_expr(x):
    """library expression -> reference entry"""
    if x.is_symbol():
        return ('s', x.name)
    try:
        return ('n', float(x))
    except Exception:  # noqa
        return ('x', str(x))


def build_dist(ref: RefRVs, blk):
    from pharmpy.model import JointNormalDistribution, NormalDistribution

    names = blk.names
    if len(names) == 1:
        n = names[0]
        return NormalDistribution.create(n, blk.level.lower(), to_arg(ref.mean[n]), to_arg(ref.var[n]))
    mean = [to_arg(ref.mean[n]) for n in names]
    var = [[to_arg(ref.get_cov(a, b)) for b in names] for a in names]
    return JointNormalDistribution.create(names, blk.level.lower(), mean, var)


# ------------------------------------------------------------------------------------------
# sub-check 1: rv_algebra

VAR = st.fixed_dictionaries(dict(lvl=st.integers(0, 4), cut=st.integers(0, 3), var=st.integers(0, 31), mean=st.integers(0, 7)))
OP = st.tuples(
    st.integers(0, 11), st.integers(0, 11), st.integers(0, 11), st.lists(st.integers(0, 11), min_size=1, max_size=4), st.booleans()
).map(list)
RV_SPEC = st.fixed_dictionaries(
    dict(
        vars=st.one_of(st.lists(VAR, min_size=4, max_size=6), st.lists(VAR, min_size=1, max_size=6)),
        covs=st.lists(st.integers(0, 11), min_size=15, max_size=15),
        ops=st.lists(OP, min_size=1, max_size=6),
    )
)


def initial_state(spec):
    vs = _get(spec, 'vars', [])
    if not isinstance(vs, list) or not vs:
        raise Reject('no variables')
    vs = vs[:6]
    covs = _ilist(_get(spec, 'covs', [0])) or [0]
    ref = RefRVs()
    groups = []
    for i, v in enumerate(vs):
        cut = _int(_get(v, 'cut', 0)) % 4 == 0
        if i == 0 or cut:
            groups.append([])
        groups[-1].append(i)
    ck = 0
    for g in groups:
        level = LEVELS[_int(_get(vs[g[0]], 'lvl', 0)) % 5]
        names = [f'X{i + 1}' for i in g]
        var, mean, cov = {}, {}, {}
        for i, n in zip(g, names):
            k = _int(_get(vs[i], 'var', 0)) % 32
            kind = k % 8
            if kind == 5:
                var[n] = ('n', 0.5)
            elif kind == 6:
                var[n] = ('n', 2.0)
            elif kind == 7 and k // 8 == 0:
                var[n] = ('n', 0.0)
            elif kind == 4 and level == 'IOV':
                var[n] = ('s', 'V_SH')
            else:
                var[n] = ('s', f'V_{n}')
            mean[n] = ('s', f'M_{n}') if _int(_get(vs[i], 'mean', 0)) % 4 == 3 else ZERO
        for a_i, a in enumerate(names):
            for c in names[:a_i]:
                k = covs[ck % len(covs)] % 6
                ck += 1
                if k <= 2:
                    e = ('s', f'C_{c}_{a}')
                elif k == 3:
                    e = ZERO
                elif k == 4:
                    e = ('n', 0.0625)
                else:
                    e = ('n', -0.0625)
                cov[frozenset((a, c))] = e
        ref.add_block(names, level, var, mean, cov)
    return ref


def render_state(ref: RefRVs):
    def r(e):
        return e[1] if e[0] == 's' else repr(e[1])

    out = []
    for b in ref.blocks:
        if len(b.names) == 1:
            n = b.names[0]
            out.append(f'{n}~N[{b.level}]({r(ref.mean[n])}, {r(ref.var[n])})')
        else:
            rows = ['[' + ' '.join(r(ref.get_cov(a, c)) for c in b.names) + ']' for a in b.names]
            out.append(f'({",".join(b.names)})~N[{b.level}](' + ' '.join(rows) + ')')
    return out


def verify(rvs, ref: RefRVs, step):
    """Compare a library RandomVariables object with the reference state (order already adopted)."""
    from pharmpy.model import JointNormalDistribution, NormalDistribution, RandomVariables

    def fail(clause, observed=None, expected=None, detail=''):
        raise Violation(f'{step}:{clause}', observed=observed, expected=expected, detail=f'{detail} state={render_state(ref)}')

    if not isinstance(rvs, RandomVariables):
        fail('result-type', observed=type(rvs).__name__)
    names = guard(lambda: list(rvs.names), allowed=(), clause=f'{step}:names')
    exp_names = ref.names()
    if names != exp_names:
        fail('names', observed=names, expected=exp_names)
    dists = guard(lambda: [rvs[i] for i in range(len(rvs))], allowed=(), clause=f'{step}:dists')
    if [tuple(d.names) for d in dists] != ref.block_tuples():
        fail('blocks', observed=[tuple(d.names) for d in dists], expected=ref.block_tuples())
    for d, b in zip(dists, ref.blocks):
        if d.level != b.level:
            fail('level', observed=d.level, expected=b.level, detail=str(b.names))
        if isinstance(d, NormalDistribution):
            n = b.names[0]
            got_v, got_m = from_expr(d.variance), from_expr(d.mean)
            if got_v != ref.var[n]:
                fail('variance-changed', observed=got_v, expected=ref.var[n], detail=n)
            if got_m != ref.mean[n]:
                fail('mean-changed', observed=got_m, expected=ref.mean[n], detail=n)
        elif isinstance(d, JointNormalDistribution):
            V = d.variance
            M = d.mean
            k = len(b.names)
            if (V.rows, V.cols) != (k, k) or M.rows != k:
                fail('block-shape', observed=(V.rows, V.cols, M.rows), expected=(k, k, k), detail=str(b.names))
            for i, a in enumerate(b.names):
                if from_expr(M[i, 0]) != ref.mean[a]:
                    fail('mean-changed', observed=from_expr(M[i, 0]), expected=ref.mean[a], detail=a)
                for j, c in enumerate(b.names):
                    got = from_expr(V[i, j])
                    exp = ref.get_cov(a, c)
                    if got != exp:
                        fail('variance-changed' if i == j else 'covariance-changed', observed=got, expected=exp, detail=f'({a},{c})')
        else:
            fail('dist-type', observed=type(d).__name__)
    # overall covariance matrix == block-diagonal composition
    cm = guard(lambda: rvs.covariance_matrix, allowed=(), clause=f'{step}:covariance_matrix')
    n = len(exp_names)
    if (cm.rows, cm.cols) != (n, n):
        fail('covariance_matrix-shape', observed=(cm.rows, cm.cols), expected=(n, n))
    for i, a in enumerate(exp_names):
        for j, c in enumerate(exp_names):
            got = from_expr(cm[i, j])
            exp = ref.get_cov(a, c)
            if got != exp:
                fail('covariance_matrix', observed=got, expected=exp, detail=f'({a},{c})')
            if j <= i:
                g2 = from_expr(guard(rvs.get_covariance, a, c, allowed=(), clause=f'{step}:get_covariance'))
                if g2 != exp:
                    fail('get_covariance', observed=g2, expected=exp, detail=f'({a},{c})')
    # parameter bookkeeping
    pn = guard(lambda: tuple(rvs.parameter_names), allowed=(), clause=f'{step}:parameter_names')
    exp_pn = tuple(sorted(ref.symbols()))
    if tuple(sorted(pn)) != exp_pn:
        fail('parameter_names', observed=pn, expected=exp_pn)
    fs = guard(lambda: {str(s) for s in rvs.free_symbols}, allowed=(), clause=f'{step}:free_symbols')
    if fs != set(exp_pn) | set(exp_names):
        fail('free_symbols', observed=sorted(fs), expected=sorted(set(exp_pn) | set(exp_names)))
    vp = ref.variance_symbols_in_order()
    if vp is not None:
        got = guard(lambda: list(rvs.variance_parameters), allowed=(), clause=f'{step}:variance_parameters')
        if sorted(got) != sorted(vp):  # unique names of the diagonal entries
            fail('variance_parameters', observed=got, expected=vp)
    if guard(lambda: rvs.nrvs, allowed=(), clause=f'{step}:nrvs') != n:
        fail('nrvs', observed=rvs.nrvs, expected=n)
    # level views
    for attr, lv in (('etas', ('IIV', 'IOV')), ('epsilons', ('RUV',)), ('iiv', ('IIV',)), ('iov', ('IOV',))):
        got = guard(lambda: list(getattr(rvs, attr).names), allowed=(), clause=f'{step}:{attr}')
        exp = [x for b in ref.blocks if b.level in lv for x in b.names]
        if got != exp:
            fail(attr, observed=got, expected=exp)


def _check_dist(d, ref: RefRVs, names, step):
    """a single returned distribution must describe exactly `names` with the table's entries"""
    sub = ref.copy()
    sub.select(names)
    from pharmpy.model import RandomVariables

    rv = guard(RandomVariables.create, [d], allowed=(), clause=f'{step}:wrap')
    if list(d.names) != list(names):
        raise Violation(f'{step}:names', observed=list(d.names), expected=list(names))
    verify(rv, sub, step)


def run_rv_algebra(spec, _collect=None):
    from pharmpy.basic import Expr
    from pharmpy.model import RandomVariables

    ref = initial_state(spec)
    try:
        dists = [build_dist(ref, b) for b in ref.blocks]
        rvs = RandomVariables.create(dists)
    except ValueError as e:  # documented: variance not positive semidefinite / negative
        raise Reject(f'create: {e}')
    verify(rvs, ref, 'create')
    classes = set()
    shape = '|'.join(f'{b.level}{len(b.names)}' for b in ref.blocks)
    if any(is_zero(ref.var[n]) for n in ref.names()):
        classes.add('zero_numeric_variance')
    if any(e[0] == 'n' for e in ref.var.values()):
        classes.add('numeric_variance')
    nvars0 = len(ref.names())
    ops = _get(spec, 'ops', [])
    if not isinstance(ops, list):
        ops = []
    trace = []
    nontrivial = False
    soft = None  # first order-only deviation (reported only when nothing else fails)
    fresh = 0
    evals = 1
    render0 = render_state(ref)

    def order_check(prev_blocks, actual_rvs, step, opname):
        nonlocal soft
        actual = guard(lambda: [tuple(d.names) for d in actual_rvs], allowed=(), clause=f'{step}:dists')
        emu = rvref.check_order(prev_blocks, ref.block_tuples(), ref.block_tuples())
        if emu is not None and emu[0] == 'needless-change' and _collect is not None:
            _collect.append(step)
        res = rvref.check_order(prev_blocks, ref.block_tuples(), actual)
        if res is not None:
            kind, msg = res
            if kind == 'partition':
                raise Violation(f'{step}:blocks', observed=actual, expected=ref.block_tuples(), detail=msg)
            if kind == 'needless-change':
                if soft is None:
                    soft = Violation(f'order:needless-change:{opname}', observed=actual, expected=[n for t in prev_blocks for n in t], detail=f'step {step}: {msg}; history={trace}; start={render0}')
            else:
                raise Violation(f'{step}:order:{kind}', observed=actual, expected=ref.block_tuples(), detail=msg)
        ref.adopt_order(actual)

    for k, op in enumerate(ops[:6]):
        if not isinstance(op, list):
            op = [op]
        op = list(op) + [0] * 5
        code, a, b = _int(op[0]) % 12, _int(op[1]), _int(op[2])
        code = {10: 2, 11: 3}.get(code, code)
        sel, flag = _ilist(op[3]) or [0], bool(_int(op[4]))
        names = ref.names()
        step = None
        prev = ref.copy()
        prev_blocks = prev.block_tuples()
        if not names and code in (2, 3):
            continue
        if code in (0, 1, 9):  # ---------------------------------------------------- join
            if len(names) < 2:
                continue
            first = names[sel[0] % len(names)]
            lvl = ref.level_of(first)
            cands = [n for n in names if ref.level_of(n) == lvl]
            if code == 9:
                # prefer a partner from another distribution
                other = [n for n in cands if ref.block_of(n) != ref.block_of(first)]
                chosen = [first] + ([other[b % len(other)]] if other else [])
                chosen += [cands[s % len(cands)] for s in sel[1:3]]
            else:
                chosen = [first] + [cands[s % len(cands)] for s in sel[1:4]]
            J = []
            for n in chosen:
                if n not in J:
                    J.append(n)
            if len(J) < 2:
                continue
            if flag:
                J = J[::-1]
            order = [n for n in names if n in J]
            mode = a % 5
            kwargs = {}
            if mode in (0, 4):
                new_entry = lambda c, r: ZERO  # noqa
                desc = 'fill=default'
            elif mode == 1:
                val = [0.125, -0.25, 1][b % 3]
                kwargs = dict(fill=val)
                new_entry = lambda c, r, val=val: ('n', float(val))  # noqa
                desc = f'fill={val}'
            elif mode == 2:
                fresh += 1
                nm = f'FILL{fresh}'
                kwargs = dict(fill=Expr.symbol(nm))
                new_entry = lambda c, r, nm=nm: ('s', nm)  # noqa
                desc = f'fill=symbol {nm}'
            else:
                pn = ['p' + n for n in order]
                kwargs = dict(name_template='COV_{}_{}', param_names=pn)
                new_entry = lambda c, r: ('s', f'COV_p{c}_p{r}')  # noqa
                desc = 'name_template'
            step = f'join[{desc.split("=")[0]}]'
            trace.append(f'join({J}, {desc})')
            spans = len({ref.block_of(n) for n in J})
            ref.join(J, new_entry)
            before = guard(lambda: rvs.covariance_matrix, allowed=(), clause=f'{step}:receiver')
            res = guard(rvs.join, list(J), allowed=(), clause=step, **kwargs)
            if list(rvs.names) != names or rvs.covariance_matrix != before:
                raise Violation(f'{step}:receiver-modified', observed=list(rvs.names), expected=names, detail=str(trace))
            if not (isinstance(res, tuple) and len(res) == 2):
                raise Violation(f'{step}:return-type', observed=repr(type(res)))
            new_rvs, cov_to_params = res
            order_check(prev_blocks, new_rvs, step, 'join')
            verify(new_rvs, ref, step)
            # returned dictionary: exactly the newly created covariance symbols -> their two variance parameters
            created = {}
            if mode == 3:
                for i, r_ in enumerate(order):
                    for c_ in order[:i]:
                        if is_zero(prev.get_cov(r_, c_)):
                            created[f'COV_p{c_}_p{r_}'] = (prev.var[r_], prev.var[c_])
            if not isinstance(cov_to_params, dict) or set(cov_to_params) != set(created):
                raise Violation(f'{step}:returned-names', observed=repr(cov_to_params), expected=sorted(created), detail=str(trace))
            for nm, (vr, vc) in created.items():
                got = cov_to_params[nm]
                if vr[0] == 's' and vc[0] == 's' and sorted(got) != sorted((vr[1], vc[1])):
                    raise Violation(f'{step}:returned-parents', observed=got, expected=(vr[1], vc[1]), detail=nm)
            rvs = new_rvs
            classes.add('join_across' if spans >= 2 else 'join_within')
            classes.add(f'join_{desc.split("=")[0].strip()}')
            if spans >= 2 and nvars0 >= 4:
                nontrivial = True
            if rvref.removed_from_middle(prev, J):
                classes.add('join_takes_from_middle')
                if nvars0 >= 4:
                    nontrivial = True
        elif code == 2:  # ----------------------------------------------------------- unjoin
            U = []
            for s in sel[:3]:
                n = names[s % len(names)]
                if n not in U:
                    U.append(n)
            if len(U) == 1 and a % 3 == 0:
                arg, how = U[0], 'str'
            elif len(U) == 1 and a % 3 == 1:
                arg, how = Expr.symbol(U[0]), 'symbol'
            elif flag:
                arg, how = [Expr.symbol(n) for n in U], 'symbols'
            else:
                arg, how = list(U), 'list'
            step = 'unjoin'
            trace.append(f'unjoin({U} as {how})')
            ref.unjoin(U)
            before = guard(lambda: rvs.covariance_matrix, allowed=(), clause=f'{step}:receiver')
            new_rvs = guard(rvs.unjoin, arg, allowed=(), clause=step)
            if list(rvs.names) != names or rvs.covariance_matrix != before:
                raise Violation(f'{step}:receiver-modified', observed=list(rvs.names), expected=names, detail=str(trace))
            order_check(prev_blocks, new_rvs, step, 'unjoin')
            verify(new_rvs, ref, step)
            rvs = new_rvs
            if rvref.removed_from_middle(prev, U):
                classes.add('unjoin_middle')
                if nvars0 >= 4:
                    nontrivial = True
            elif prev.block_tuples() != ref.block_tuples():
                classes.add('unjoin_edge')
        elif code == 3:  # ----------------------------------------------------------- [list of names]
            S = []
            for s in sel:
                n = names[s % len(names)]
                if n not in S:
                    S.append(n)
            if a % 4 == 0:
                arg, how = [Expr.symbol(n) for n in S], 'symbols'
            elif a % 4 == 1:
                arg, how = tuple(S), 'tuple'
            else:
                arg, how = list(S), 'list'
            step = 'getitem[names]'
            trace.append(f'[{S} as {how}]')
            ref.select(S)
            new_rvs = guard(lambda: rvs[arg], allowed=(), clause=step)
            order_check(prev_blocks, new_rvs, step, 'getitem')
            verify(new_rvs, ref, step)
            rvs = new_rvs
            removed = [n for n in names if n not in S]
            if rvref.removed_from_middle(prev, removed):
                classes.add('select_drops_middle')
                if nvars0 >= 4:
                    nontrivial = True
        elif code == 4:  # ----------------------------------------------------------- [slice]
            nb = len(ref.blocks)
            lo = a % nb if nb else 0
            hi = lo + (0 if (a % 7 == 6) else 1 + b % (nb - lo + 1)) if nb else b % 2  # mostly non-empty; nb+1 -> open end
            start = None if (flag and lo == 0) else lo
            stop = None if hi >= nb + 1 else hi
            step = 'getitem[slice]'
            trace.append(f'[{start}:{stop}]')
            ref.slice(start, stop)
            new_rvs = guard(lambda: rvs[start:stop], allowed=(), clause=step)
            verify(new_rvs, ref, step)
            rvs = new_rvs
            if not ref.blocks:
                classes.add('emptied')
        elif code == 5:  # ----------------------------------------------------------- [int] / [str] (query)
            if not names:
                continue
            if flag:
                i = a % len(ref.blocks)
                step = 'getitem[int]'
                trace.append(f'[{i}]')
                d = guard(lambda: rvs[i], allowed=(), clause=step)
                _check_dist(d, ref, ref.blocks[i].names, step)
            else:
                n = names[a % len(names)]
                step = 'getitem[str]'
                trace.append(f'[{n!r}]')
                d = guard(lambda: rvs[n] if b % 2 else rvs[Expr.symbol(n)], allowed=(), clause=step)
                _check_dist(d, ref, ref.blocks[ref.block_of(n)].names, step)
        elif code == 6:  # ----------------------------------------------------------- subs
            syms = sorted(ref.symbols())
            mode = a % 4
            params, rename, d = {}, {}, {}
            if mode in (0, 1, 3) and syms:
                s = syms[sel[0] % len(syms)]
                if mode == 1:
                    params[s] = ('n', 0.75)
                    d[Expr.symbol(s)] = 0.75
                else:
                    fresh += 1
                    params[s] = ('s', f'P{fresh}')
                    d[Expr.symbol(s)] = Expr.symbol(f'P{fresh}')
            if mode in (2, 3) and names:
                n = names[b % len(names)]
                fresh += 1
                rename[n] = f'Y{fresh}'
                d[Expr.symbol(n)] = Expr.symbol(f'Y{fresh}')
            if not d:
                continue
            step = 'subs'
            trace.append(f'subs({ {str(k): str(v) for k, v in d.items()} })')
            ref.subs(params, rename)
            new_rvs = guard(rvs.subs, d, allowed=(), clause=step)
            verify(new_rvs, ref, step)
            rvs = new_rvs
            classes.add('subs_rename_rv' if rename else 'subs_param')
        elif code == 7:  # ----------------------------------------------------------- +
            if len(names) >= 8:
                continue
            fresh += 1
            mode = a % 5
            lvl = LEVELS[b % 5]
            add = RefRVs()
            n1, n2 = f'Z{fresh}a', f'Z{fresh}b'
            two = mode in (1, 3) or (mode == 2 and flag)
            nn = [n1, n2] if two else [n1]
            var = {n: ('s', f'V_{n}') for n in nn}
            mean = {n: ZERO for n in nn}
            if mode == 1:  # one joint distribution
                add.add_block(nn, lvl, var, mean, {frozenset(nn): ('s', f'C_{n1}_{n2}')})
            else:
                for n in nn:
                    add.add_block([n], lvl, var, mean, {})
            newd = [build_dist(add, blk) for blk in add.blocks]
            front = False
            if mode in (0, 1) and len(newd) == 1:
                if flag:
                    step, front = 'radd[dist]', True
                    fn = lambda: newd[0] + rvs  # noqa
                else:
                    step = 'add[dist]'
                    fn = lambda: rvs + newd[0]  # noqa
            elif mode in (2,):
                step = 'add[RandomVariables]'
                other = RandomVariables.create(newd)
                fn = lambda: rvs + other  # noqa
            elif mode == 3:
                step = 'add[list]'
                fn = lambda: rvs + list(newd)  # noqa
            else:
                step, front = 'radd[list]', True
                fn = lambda: list(newd) + rvs  # noqa
            trace.append(f'{step} {render_state(add)}')
            blocks = add.blocks[::-1] if front else add.blocks
            for blk in blocks:
                cov = {frozenset((x, y)): add.get_cov(x, y) for x in blk.names for y in blk.names if x != y}
                ref.add_block(blk.names, blk.level, add.var, add.mean, cov, front=front)
            new_rvs = guard(fn, allowed=(), clause=step)
            verify(new_rvs, ref, step)
            rvs = new_rvs
            classes.add('add')
        else:  # code == 8 --------------------------------------------------------------- replace(dists=...)
            nb = len(ref.blocks)
            if nb == 0:
                continue
            cur = guard(lambda: [rvs[i] for i in range(len(rvs))], allowed=(), clause='replace:dists')
            mode = a % 3
            if mode == 0:
                r = b % nb
                perm = list(range(r, nb)) + list(range(r))
                what = f'rotate {r}'
            elif mode == 1:
                perm = list(range(nb))[::-1]
                what = 'reverse'
            else:
                perm = list(range(nb))
                what = 'variance of one Normal'
            newd = [cur[i] for i in perm]
            ref.permute_blocks(perm)
            if mode == 2:
                singles = [i for i, blk in enumerate(ref.blocks) if len(blk.names) == 1]
                if not singles:
                    continue
                i = singles[b % len(singles)]
                fresh += 1
                n = ref.blocks[i].names[0]
                ref.var[n] = ('s', f'P{fresh}')
                newd[i] = guard(newd[i].replace, variance=Expr.symbol(f'P{fresh}'), allowed=(), clause='replace:dist.replace')
                what += f' {n} -> P{fresh}'
            step = 'replace'
            trace.append(f'replace(dists: {what})')
            new_rvs = guard(rvs.replace, dists=tuple(newd) if flag else list(newd), allowed=(), clause=step)
            verify(new_rvs, ref, step)
            rvs = new_rvs
            classes.add('replace')
        evals += 1
        # immutability of the receiver is part of "preserves": the previous object still describes prev
    if soft is not None:
        raise soft
    key = shape + '>' + ';'.join(trace)
    if len(trace) >= 3:
        classes.add('history>=3')
    return CaseInfo(nontrivial=nontrivial, classes=tuple(sorted(classes)), key=key, render=dict(start=render0, history=trace, end=render_state(ref)), evals=evals)


def pred_needless_reorder(spec):
    """Known-finding predicate: the history contains a join/unjoin step that takes variables
    away from the END of a joint block (no removed variable between kept ones, so the previous
    order is still valid) -- decided on the reference model alone, whose placement rule is
    'unjoined variables first, then the rest of their block'."""
    seen = []
    try:
        run_rv_algebra(spec, _collect=seen)
    except (Violation, Reject):
        pass
    return bool(seen)


# ------------------------------------------------------------------------------------------
# sub-check 2: psd_repair

PSD_SPEC = st.fixed_dictionaries(
    dict(
        n=st.integers(1, 6),
        kind=st.integers(0, 7),
        L=st.lists(st.integers(-8, 8), min_size=21, max_size=21),
        d=st.integers(0, 5),
        scale=st.integers(0, 4),
        extra=st.integers(0, 3),
        path=st.integers(0, 2),
        bump=st.lists(st.integers(0, 20), min_size=3, max_size=3),
    )
)

SCALES = [1.0, 1e-3, 1e3, 1e-6, 1.0]


def psd_matrix(spec):
    n = max(1, min(6, _int(_get(spec, 'n', 1))))
    kind = _int(_get(spec, 'kind', 0)) % 8
    ints = _ilist(_get(spec, 'L', [1])) or [1]
    d = _int(_get(spec, 'd', 0))
    bump = (_ilist(_get(spec, 'bump', [0, 0, 0])) + [0, 0, 0])[:3]
    L, _ = rvref.lower_tri(ints, n)
    G = L @ L.T
    mx = max(1.0, float(np.max(np.abs(G))))
    delta = [1e-3, 1e-2, 0.1, 1.0, 1e-5, 10.0][d % 6] * mx
    how = ['LLt+dI', 'LLt+dI', 'random-symmetric', 'pd-with-blown-covariance', 'rank-deficient', 'singular-minus-eps', 'sd-corr-form', 'negative-diagonal'][kind]
    if kind in (0, 1):
        A = G + delta * np.eye(n)
    elif kind == 2:
        A = np.zeros((n, n))
        k = 0
        for i in range(n):
            for j in range(i + 1):
                v = ints[k % len(ints)] / 4.0
                k += 1
                A[i, j] = A[j, i] = abs(v) + 0.25 if i == j else v * (1 + d % 3)
    elif kind == 3:
        A = G + delta * np.eye(n)
        if n >= 2:
            i = bump[0] % n
            j = (i + 1 + bump[1] % (n - 1)) % n
            f = [1.5, 3.0, 1.01, -1.5, -1.01][bump[2] % 5]
            A[i, j] = A[j, i] = f * math.sqrt(A[i, i] * A[j, j])
    elif kind in (4, 5):
        L2 = L.copy()
        drop = 1 + bump[0] % max(1, n - 1) if n > 1 else 1
        L2[:, n - drop :] = 0.0
        A = L2 @ L2.T
        if kind == 5:
            eps = [1e-12, 1e-9, 1e-14, 1e-7][bump[1] % 4] * max(1e-300, float(np.max(np.abs(A))) or 1.0)
            A = A - eps * np.eye(n)
    elif kind == 6:
        sd = np.sqrt(np.diag(G))
        C = np.eye(n)
        k = 0
        for i in range(n):
            for j in range(i):
                C[i, j] = C[j, i] = max(-1.2, min(1.2, ints[k % len(ints)] / 6.0))
                k += 1
        A = rvref.sdcorr_to_cov(sd, C)
    else:
        A = G + delta * np.eye(n)
        i = bump[0] % n
        A[i, i] = -A[i, i]
    A = rvref.sym(A) * SCALES[_int(_get(spec, 'scale', 0)) % 5]
    return A, how


def _psd_ok(R, scale):
    return rvref.eig_min(R) >= -1e-10 * scale


def run_psd_repair(spec):
    from pharmpy.basic import Expr
    from pharmpy.internals.math import is_positive_semidefinite, nearest_positive_semidefinite
    from pharmpy.model import JointNormalDistribution, Model, NormalDistribution, Parameter, Parameters, RandomVariables

    A, how = psd_matrix(spec)
    n = A.shape[0]
    nrm = rvref.fro(A)
    if not np.all(np.isfinite(A)) or nrm == 0.0:
        raise Reject('degenerate matrix')
    cls = rvref.classify(A)
    P = rvref.clip_projection(A)
    dref = rvref.fro(P - A)
    tol = 1e-8 * nrm
    detail = f'{how} n={n} class={cls} min_eig/|A|={rvref.eig_min(A) / nrm:.3e} A={A.tolist()}'
    evals = 0

    # ---- the two internal functions directly
    A_in = A.copy()
    verdict = bool(guard(is_positive_semidefinite, A_in, allowed=(), clause='is_positive_semidefinite'))
    if cls == 'pd' and not verdict:
        raise Violation('is_positive_semidefinite:false-on-pd', observed=verdict, expected=True, detail=detail)
    if cls == 'indef' and verdict:
        raise Violation('is_positive_semidefinite:true-on-indefinite', observed=verdict, expected=False, detail=detail)
    B = guard(nearest_positive_semidefinite, A_in, allowed=(), clause='nearest_positive_semidefinite')
    if not np.array_equal(A_in, A):
        raise Violation('nearest_positive_semidefinite:input-mutated', observed=A_in.tolist(), expected=A.tolist(), detail=detail)
    B = np.array(B, dtype=float)
    evals += 1

    def judge(R, where):
        if R.shape != A.shape or not np.all(np.isfinite(R)):
            raise Violation(f'{where}:shape-or-nonfinite', observed=R.tolist(), detail=detail)
        if not np.array_equal(R, R.T):
            raise Violation(f'{where}:asymmetric', observed=R.tolist(), detail=detail)
        if cls == 'pd':
            if not np.array_equal(R, A):
                raise Violation(f'{where}:valid-values-altered', observed=R.tolist(), expected=A.tolist(), detail=detail)
            return
        if not _psd_ok(R, nrm):
            raise Violation(f'{where}:not-psd', observed=dict(min_eig=rvref.eig_min(R), R=R.tolist()), expected=f'min eig >= {-1e-10 * nrm}', detail=detail)
        dist = rvref.fro(R - A)
        if dist > dref + tol:
            raise Violation(f'{where}:farther-than-clipping-projection', observed=dist, expected=dref, detail=detail + f' R={R.tolist()}')

    judge(B, 'nearest_positive_semidefinite')

    # ---- through Model.create / Model.replace
    names = [f'ETA{i + 1}' for i in range(n)]
    pname = lambda i, j: f'OM_{max(i, j) + 1}_{min(i, j) + 1}'  # noqa
    extra = _int(_get(spec, 'extra', 0)) % 4
    path = _int(_get(spec, 'path', 0)) % 3
    plist = []
    if extra & 1:
        plist.append(Parameter.create('TH1', 1.5, lower=0.0, upper=10.0))
    for i in range(n):
        for j in range(i + 1):
            lower = 0.0 if (i == j and A[i, i] >= 0 and extra & 2) else None
            plist.append(Parameter.create(pname(i, j), float(A[i, j]), lower=lower))
    if n == 1:
        dists = [NormalDistribution.create(names[0], 'iiv', 0, Expr.symbol(pname(0, 0)))]
    else:
        dists = [JointNormalDistribution.create(names, 'iiv', [0] * n, [[Expr.symbol(pname(i, j)) for j in range(n)] for i in range(n)])]
    other = {}
    if extra & 1:
        other = {'SI_1_1': 0.04, 'SI_2_1': -0.01, 'SI_2_2': 0.09}
        for k_, v_ in other.items():
            plist.append(Parameter.create(k_, v_))
        S = Expr.symbol
        dists.append(JointNormalDistribution.create(['EPS1', 'EPS2'], 'ruv', [0, 0], [[S('SI_1_1'), S('SI_2_1')], [S('SI_2_1'), S('SI_2_2')]]))
        other['TH1'] = 1.5
    params = Parameters.create(plist)
    rvs = RandomVariables.create(dists)

    def make():
        if path == 0:
            return Model.create('m', parameters=params, random_variables=rvs)
        if path == 1:
            good = params.set_initial_estimates({pname(i, j): (1.0 if i == j else 0.0) for i in range(n) for j in range(i + 1)})
            m0 = Model.create('m', parameters=good, random_variables=rvs)
            return m0.replace(parameters=params)
        m0 = Model.create('m', parameters=params)
        return m0.replace(random_variables=rvs)

    where = ['Model.create', 'Model.replace(parameters)', 'Model.replace(random_variables)'][path]
    detail = f'via {where}; ' + detail
    model = guard(make, allowed=(), clause=where)
    pathname = where
    where = 'model'
    inits = model.parameters.inits
    if list(model.parameters.names) != [p.name for p in plist]:
        raise Violation(f'{where}:parameter-names-changed', observed=list(model.parameters.names), expected=[p.name for p in plist])
    for k_, v_ in other.items():
        if inits[k_] != v_:
            raise Violation(f'{where}:unrelated-parameter-changed', observed=inits[k_], expected=v_, detail=f'{k_}; {detail}')
    R = np.array([[inits[pname(i, j)] for j in range(n)] for i in range(n)], dtype=float)
    evals += 1
    if n == 1 and cls == 'indef':
        if R[0, 0] < 0:
            raise Violation(f'{where}:negative-variance-of-normal-kept', observed=R[0, 0], expected='>= 0', detail=detail)
    judge(R, where)
    # repaired values are a fixed point
    again = guard(lambda: model.replace(parameters=model.parameters), allowed=(), clause=f'{where}:again')
    if again.parameters.inits != inits:
        raise Violation(f'{where}:repair-not-idempotent', observed=again.parameters.inits, expected=inits, detail=detail)
    if not guard(rvs.validate_parameters, inits, allowed=(), clause='validate_parameters') and cls != 'near' and n > 1:
        raise Violation(f'{where}:result-fails-validate_parameters', observed=inits, detail=detail)
    altered = not np.array_equal(R, A)
    classes = [cls, how, f'n={n}', pathname]
    if cls == 'near':
        classes.append('near:altered' if altered else 'near:unchanged')
        classes.append('near:is_psd=' + str(verdict))
    return CaseInfo(nontrivial=(cls == 'indef' and n >= 2), classes=tuple(classes), render=dict(A=A.tolist(), cls=cls, how=how, path=pathname, result=R.tolist()), evals=evals)


# ------------------------------------------------------------------------------------------
# sub-check 3: conversions

CONV_SPEC = st.fixed_dictionaries(
    dict(
        n=st.integers(1, 6),
        L=st.lists(st.integers(-8, 8), min_size=21, max_size=21),
        d=st.integers(0, 3),
        scale=st.integers(0, 4),
        cuts=st.lists(st.booleans(), min_size=5, max_size=5),
        shared=st.booleans(),
    )
)


def _mclose(got, exp, rtol=1e-9):
    got = np.asarray(got, dtype=float)
    exp = np.asarray(exp, dtype=float)
    if got.shape != exp.shape:
        return False
    if not np.all(np.isfinite(got)):
        return False
    return bool(np.all(np.abs(got - exp) <= rtol * max(float(np.max(np.abs(exp))), 1e-300)))


def run_conversions(spec):
    import pandas as pd
    from pharmpy.basic import Expr
    from pharmpy.internals.math import corr2cov, cov2corr
    from pharmpy.model import JointNormalDistribution, NormalDistribution, RandomVariables
    from pharmpy.modeling import (
        calculate_corr_from_cov,
        calculate_corr_from_prec,
        calculate_cov_from_corrse,
        calculate_cov_from_prec,
        calculate_prec_from_corrse,
        calculate_prec_from_cov,
        calculate_se_from_cov,
        calculate_se_from_prec,
    )

    n = max(1, min(6, _int(_get(spec, 'n', 1))))
    ints = _ilist(_get(spec, 'L', [1])) or [1]
    L, _ = rvref.lower_tri(ints, n)
    G = L @ L.T
    delta = [1e-3, 1e-2, 0.1, 1.0][_int(_get(spec, 'd', 0)) % 4] * max(1.0, float(np.max(np.abs(G))))
    C = rvref.sym(G + delta * np.eye(n)) * SCALES[_int(_get(spec, 'scale', 0)) % 5]
    if rvref.classify(C, margin=1e-5) != 'pd':
        raise Reject('not PD with margin')
    sd, corr = rvref.cov_to_sdcorr(C)
    detail = f'C={C.tolist()}'
    evals = 0

    def chk(name, got, exp, rtol=1e-9):
        nonlocal evals
        evals += 1
        if not _mclose(got, exp, rtol):
            raise Violation(name, observed=np.asarray(got).tolist(), expected=np.asarray(exp).tolist(), detail=detail)

    # --- internals.math
    Cin = C.copy()
    chk('cov2corr', guard(cov2corr, Cin, allowed=(), clause='cov2corr'), corr)
    if not np.array_equal(Cin, C):
        raise Violation('cov2corr:input-mutated', detail=detail)
    chk('corr2cov', guard(corr2cov, corr.copy(), sd.copy(), allowed=(), clause='corr2cov'), C)
    chk('corr2cov(cov2corr)', guard(lambda: corr2cov(cov2corr(C.copy()), np.sqrt(np.diag(C))), allowed=(), clause='corr2cov'), C)

    # --- modeling.calculate_*  (labelled data frames)
    labels = [f'P{i + 1}' for i in range(n)]
    cov_df = pd.DataFrame(C.copy(), index=labels, columns=labels)
    corr_df = pd.DataFrame(corr.copy(), index=labels, columns=labels)
    se_s = pd.Series(sd.copy(), index=labels)
    Pm = np.linalg.inv(C)
    condC = float(np.linalg.cond(C))
    ptol = 1e-9 * max(1.0, condC / 1e3)  # inverse of a matrix: forward error grows with the condition number
    prec_df = pd.DataFrame(Pm.copy(), index=labels, columns=labels)

    def frame(name, got, exp, rtol=1e-9, series=False):
        if series:
            if list(got.index) != labels:
                raise Violation(f'{name}:labels', observed=list(got.index), expected=labels)
        else:
            if list(got.index) != labels or list(got.columns) != labels:
                raise Violation(f'{name}:labels', observed=[list(got.index), list(got.columns)], expected=labels)
        chk(name, got.values, exp, rtol)

    frame('calculate_se_from_cov', guard(calculate_se_from_cov, cov_df, allowed=(), clause='calculate_se_from_cov'), sd, series=True)
    frame('calculate_corr_from_cov', guard(calculate_corr_from_cov, cov_df, allowed=(), clause='calculate_corr_from_cov'), corr)
    frame('calculate_cov_from_corrse', guard(calculate_cov_from_corrse, corr_df, se_s, allowed=(), clause='calculate_cov_from_corrse'), C)
    got_prec = guard(calculate_prec_from_cov, cov_df, allowed=(), clause='calculate_prec_from_cov')
    frame('calculate_prec_from_cov', got_prec, Pm, ptol)
    frame('calculate_cov_from_prec', guard(calculate_cov_from_prec, prec_df, allowed=(), clause='calculate_cov_from_prec'), C, ptol)
    frame('calculate_cov_from_prec(calculate_prec_from_cov)', guard(calculate_cov_from_prec, got_prec, allowed=(), clause='calculate_cov_from_prec'), C, ptol)
    frame('calculate_se_from_prec', guard(calculate_se_from_prec, prec_df, allowed=(), clause='calculate_se_from_prec'), sd, ptol, series=True)
    frame('calculate_prec_from_corrse', guard(calculate_prec_from_corrse, corr_df, se_s, allowed=(), clause='calculate_prec_from_corrse'), Pm, ptol)
    frame('calculate_corr_from_prec', guard(calculate_corr_from_prec, prec_df, allowed=(), clause='calculate_corr_from_prec'), corr, ptol)
    # composite round trip cov -> (corr, se) -> cov
    rt = guard(lambda: calculate_cov_from_corrse(calculate_corr_from_cov(cov_df), calculate_se_from_cov(cov_df)), allowed=(), clause='cov->corrse->cov')
    frame('cov->corrse->cov', rt, C)
    for nm, df, orig in (('cov', cov_df, C), ('corr', corr_df, corr), ('prec', prec_df, Pm)):
        if not np.array_equal(df.values, orig):
            raise Violation(f'calculate_*:input-mutated:{nm}', detail=detail)

    # --- RandomVariables.parameters_sdcorr over a block layout of C
    cuts = [bool(_int(c)) for c in (_get(spec, 'cuts', []) if isinstance(_get(spec, 'cuts', []), list) else [])] + [False] * 5
    groups = [[0]]
    for i in range(1, n):
        if cuts[i - 1]:
            groups.append([])
        groups[-1].append(i)
    S = Expr.symbol
    pname = lambda i, j: f'OM_{max(i, j) + 1}_{min(i, j) + 1}'  # noqa
    dists = []
    values = {'TH1': 23.0}
    expected = {'TH1': 23.0}
    for g in groups:
        nm = [f'ETA{i + 1}' for i in g]
        if len(g) == 1:
            i = g[0]
            dists.append(NormalDistribution.create(nm[0], 'iiv', 0, S(pname(i, i))))
        else:
            dists.append(JointNormalDistribution.create(nm, 'iiv', [0] * len(g), [[S(pname(i, j)) for j in g] for i in g]))
        for i in g:
            for j in g:
                if j <= i:
                    values[pname(i, j)] = float(C[i, j])
                    expected[pname(i, j)] = float(sd[i]) if i == j else float(corr[i, j])
    shared = bool(_int(_get(spec, 'shared', 0)))
    if shared:
        # a second occasion re-using the parameters of the first distribution (IOV pattern)
        g = groups[0]
        nm = [f'IOV2_{i + 1}' for i in g]
        if len(g) == 1:
            dists.append(NormalDistribution.create(nm[0], 'iov', 0, S(pname(g[0], g[0]))))
        else:
            dists.append(JointNormalDistribution.create(nm, 'iov', [0] * len(g), [[S(pname(i, j)) for j in g] for i in g]))
    rvs = RandomVariables.create(dists)
    vin = dict(values)
    got = guard(rvs.parameters_sdcorr, vin, allowed=(), clause='parameters_sdcorr')
    evals += 1
    if vin != values:
        raise Violation('parameters_sdcorr:input-mutated', observed=vin, expected=values)
    if set(got) != set(expected):
        raise Violation('parameters_sdcorr:keys', observed=sorted(got), expected=sorted(expected))
    for k, v in expected.items():
        if not abs(float(got[k]) - v) <= 1e-9 * max(abs(v), 1e-300):
            raise Violation('parameters_sdcorr:value', observed=float(got[k]), expected=v, detail=f'{k}; layout={groups}; {detail}')
    # my inverse of the library's result gives back the variance/covariance values
    for g in groups:
        sdg = [float(got[pname(i, i)]) for i in g]
        for a, i in enumerate(g):
            for b_, j in enumerate(g):
                if j <= i:
                    back = sdg[a] * sdg[b_] * (1.0 if i == j else float(got[pname(i, j)]))
                    if not abs(back - values[pname(i, j)]) <= 1e-9 * float(np.max(np.abs(C))):
                        raise Violation('parameters_sdcorr:not-invertible', observed=back, expected=values[pname(i, j)], detail=f'{pname(i, j)}; {detail}')
    has_joint = any(len(g) > 1 for g in groups)
    classes = [f'n={n}', 'joint' if has_joint else 'all-normal', f'cond<1e{int(math.ceil(math.log10(max(condC, 1.0))))}']
    if shared:
        classes.append('shared-iov')
    if np.any(C == 0.0):
        classes.append('zero-covariance')
    return CaseInfo(nontrivial=(n >= 3 and has_joint), classes=tuple(classes), render=dict(C=C.tolist(), layout=groups), evals=evals)


# ------------------------------------------------------------------------------------------
# sub-check 4: ucp

THETA = st.fixed_dictionaries(dict(init=st.integers(1, 40), lo=st.integers(0, 5), up=st.integers(0, 5), fix=st.integers(0, 4)))
UCP_SPEC = st.fixed_dictionaries(
    dict(
        thetas=st.lists(THETA, min_size=0, max_size=3),
        eta=st.lists(st.integers(1, 3), min_size=1, max_size=3),
        eps=st.lists(st.integers(1, 2), min_size=1, max_size=2),
        L=st.lists(st.integers(-8, 8), min_size=30, max_size=30),
        fixb=st.lists(st.integers(0, 5), min_size=5, max_size=5),
        order=st.integers(0, 2),
    )
)

LOWERS = [0.0, 0.0, -5.0, 0.01, None, -2e6]
UPPERS = [10.0, 1000.0, 100.0, None, 1e6, 3e6]


def ucp_layout(spec):
    """-> (thetas, blocks) ; blocks: list of dict(kind 'eta'|'eps', L (lower triangular), A, fixed, first index)"""
    ints = _ilist(_get(spec, 'L', [1])) or [1]
    fixb = (_ilist(_get(spec, 'fixb', [])) + [1] * 5)[:5]
    blocks = []
    off = 0
    bi = 0
    for kind, key, cap in (('eta', 'eta', 3), ('eps', 'eps', 2)):
        sizes = [max(1, min(3 if kind == 'eta' else 2, s)) for s in _ilist(_get(spec, key, [1]))[:cap]] or [1]
        first = 0
        for s in sizes:
            L, off = rvref.lower_tri(ints, s, off=off, diag_min=0.25, div=8.0)
            A = L @ L.T
            blocks.append(dict(kind=kind, L=L, A=A, fixed=(fixb[bi % 5] % 6 == 0), first=first, size=s))
            first += s
            bi += 1
    thetas = []
    tl = _get(spec, 'thetas', [])
    for t in (tl if isinstance(tl, list) else [])[:3]:
        lo = LOWERS[_int(_get(t, 'lo', 0)) % 6]
        up = UPPERS[_int(_get(t, 'up', 0)) % 6]
        init = _int(_get(t, 'init', 1)) % 41 / 8.0 + 0.125  # 0.125 .. 5.125, strictly inside every bound pair above
        thetas.append(dict(init=init, lower=lo, upper=up, fix=(_int(_get(t, 'fix', 1)) % 5 == 0)))
    return thetas, blocks


def pred_ucp_negative_cholesky(spec):
    """Known-finding predicate: some non-fixed covariance block has a Cholesky factor with a
    negative off-diagonal element (inits are L L^T with the generated L, diag(L) > 0, so L is
    the Cholesky factor)."""
    _, blocks = ucp_layout(spec)
    for b in blocks:
        if b['fixed']:
            continue
        L = b['L']
        for i in range(L.shape[0]):
            for j in range(i):
                if L[i, j] < 0:
                    return True
    return False


def run_ucp(spec):
    from pharmpy.basic import Expr
    from pharmpy.model import JointNormalDistribution, Model, NormalDistribution, Parameter, Parameters, RandomVariables
    from pharmpy.modeling import calculate_parameters_from_ucp, calculate_ucp_scale

    thetas, blocks = ucp_layout(spec)
    S = Expr.symbol
    tparams = [Parameter.create(f'TH{i + 1}', t['init'], lower=t['lower'], upper=t['upper'], fix=t['fix']) for i, t in enumerate(thetas)]
    oparams, sparams, dists = [], [], []
    expected = {}
    tolmap = {}
    eps64 = 2.220446049250313e-16
    for i, t in enumerate(thetas):
        if not t['fix']:
            lo = max(t['lower'], -1e6) if t['lower'] is not None else -1e6
            up = min(t['upper'], 1e6) if t['upper'] is not None else 1e6
            expected[f'TH{i + 1}'] = t['init']
            tolmap[f'TH{i + 1}'] = 1e-9 * abs(t['init']) + 16 * eps64 * (abs(lo) + (up - lo))
    for b in blocks:
        pre, rv, lvl, plist = ('OM', 'ETA', 'iiv', oparams) if b['kind'] == 'eta' else ('SI', 'EPS', 'ruv', sparams)
        idx = [b['first'] + k for k in range(b['size'])]
        pname = lambda i, j: f'{pre}_{max(i, j) + 1}_{min(i, j) + 1}'  # noqa
        A = b['A']
        for a, i in enumerate(idx):
            for c, j in enumerate(idx):
                if j <= i:
                    plist.append(Parameter.create(pname(i, j), float(A[a, c]), fix=b['fixed']))
                    if not b['fixed']:
                        expected[pname(i, j)] = float(A[a, c])
                        tolmap[pname(i, j)] = 1e-9 * float(np.max(np.abs(A)))
        nm = [f'{rv}{i + 1}' for i in idx]
        if len(idx) == 1:
            dists.append(NormalDistribution.create(nm[0], lvl, 0, S(pname(idx[0], idx[0]))))
        else:
            dists.append(JointNormalDistribution.create(nm, lvl, [0] * len(idx), [[S(pname(i, j)) for j in idx] for i in idx]))
    order = _int(_get(spec, 'order', 0)) % 3
    plist = tparams + oparams + sparams
    if order == 1:
        plist = sparams + oparams + tparams
    elif order == 2:
        plist = oparams + tparams[::-1] + sparams
    params = Parameters.create(plist)
    model = guard(Model.create, 'm', parameters=params, random_variables=RandomVariables.create(dists), allowed=(), clause='Model.create')
    if model.parameters.inits != params.inits:
        if all(rvref.classify(b['A']) == 'pd' for b in blocks):
            raise Violation('ucp:Model.create-altered-pd-inits', observed=model.parameters.inits, expected=params.inits)
        raise Reject('near-singular block altered by Model.create')
    scale = guard(calculate_ucp_scale, model, allowed=(), clause='calculate_ucp_scale')
    ucps = {p.name: 0.1 for p in params if not p.fix}
    res = guard(calculate_parameters_from_ucp, model, scale, ucps, allowed=(), clause='calculate_parameters_from_ucp')
    got = {str(k): float(v) for k, v in dict(res).items()}
    render = dict(parameters=[(p.name, p.init, p.lower, p.upper, p.fix) for p in params], blocks=[(b['kind'], b['size'], 'FIX' if b['fixed'] else '', b['L'].tolist()) for b in blocks])
    if set(got) != set(expected):
        raise Violation('ucp:parameter-set', observed=sorted(got), expected=sorted(expected), detail=str(render))
    neg = pred_ucp_negative_cholesky(spec)
    for k in [p.name for p in params if not p.fix]:
        if not abs(got[k] - expected[k]) <= tolmap[k]:
            kind = 'theta' if k.startswith('TH') else ('variance' if k.split('_')[1] == k.split('_')[2] else 'covariance')
            raise Violation(
                f'ucp:initial-point-not-reproduced:{kind}', observed=got[k], expected=expected[k],
                detail=f'{k}: from_ucp(scale, 0.1)={got[k]!r} but init={expected[k]!r} (tolerance {tolmap[k]:.3g}); negative Cholesky off-diagonal in a free block: {neg}; {render}',
            )
    classes = [f'thetas={len(thetas)}', f'order={order}']
    if neg:
        classes.append('negative_cholesky_offdiag')
    if any(b['size'] >= 2 and not b['fixed'] for b in blocks):
        classes.append('free_joint_block')
    if any(b['fixed'] for b in blocks):
        classes.append('fixed_block')
    if any((t['lower'] is None or t['lower'] < -1e5 or t['upper'] is None or t['upper'] >= 1e6) and not t['fix'] for t in thetas):
        classes.append('theta_wide_bounds')
    offdiag = any(not b['fixed'] and any(b['L'][i, j] != 0 for i in range(b['size']) for j in range(i)) for b in blocks)
    return CaseInfo(nontrivial=offdiag, classes=tuple(classes), render=render, evals=len(expected))


# ------------------------------------------------------------------------------------------
# sub-check 5: joint_model  (create_joint_distribution / split_joint_distribution on models)

JM_ETA = st.fixed_dictionaries(dict(stmt=st.integers(0, 5), also=st.integers(0, 7), form=st.integers(0, 2), cut=st.integers(0, 2)))
JM_OP = st.tuples(st.integers(0, 5), st.lists(st.integers(0, 9), min_size=2, max_size=5), st.booleans()).map(list)
JM_SPEC = st.fixed_dictionaries(
    dict(
        etas=st.one_of(st.lists(JM_ETA, min_size=3, max_size=5), st.lists(JM_ETA, min_size=2, max_size=5)),
        k=st.integers(1, 4),
        ops=st.lists(JM_OP, min_size=1, max_size=3),
        est=st.integers(0, 2),
    )
)


def jm_layout(spec):
    """-> (k, [(primary statement index or k for 'directly in Y', second statement or None, form)], block sizes)"""
    etas = _get(spec, 'etas', [])
    etas = [e for e in (etas if isinstance(etas, list) else [])][:5]
    if len(etas) < 2:
        raise Reject('fewer than two etas')
    k = max(1, min(4, _int(_get(spec, 'k', 1))))
    place = []
    sizes = []
    for i, e in enumerate(etas):
        s_ = _int(_get(e, 'stmt', 0)) % (k + 1)
        also = None
        if s_ < k and k > 1 and _int(_get(e, 'also', 1)) % 4 == 0:
            also = (s_ + 1) % k
        place.append((s_, also, _int(_get(e, 'form', 0)) % 3))
        if i == 0 or _int(_get(e, 'cut', 0)) % 3 != 2:
            sizes.append(1)
        else:
            sizes[-1] += 1
    return k, place, sizes


def jm_code(spec):
    k, place, sizes = jm_layout(spec)
    lines = ['$PROBLEM c11', '$INPUT ID TIME DV', '$DATA c11.csv IGNORE=@', '$PRED']
    for j in range(k):
        mult = [f'ETA({i + 1})' for i, (s_, also, f) in enumerate(place) if (s_ == j or also == j) and f != 1]
        addv = [f'ETA({i + 1})' for i, (s_, also, f) in enumerate(place) if (s_ == j or also == j) and f == 1]
        rhs = f'THETA({j + 1})'
        if mult:
            rhs += '*EXP(' + '+'.join(mult) + ')'
        if addv:
            rhs += ' + ' + ' + '.join(addv)
        lines.append(f'P{j + 1} = {rhs}')
    direct = [f'ETA({i + 1})' for i, (s_, also, f) in enumerate(place) if s_ == k]
    lines.append('Y = ' + ' + '.join([f'P{j + 1}' for j in range(k)] + direct) + ' + EPS(1)')
    for j in range(k):
        lines.append(f'$THETA (0,{j + 1}.5)')
    i = 0
    for n in sizes:
        if n == 1:
            lines.append(f'$OMEGA {0.1 * (i + 1):.2f}')
        else:
            lines.append(f'$OMEGA BLOCK({n})')
            for r in range(n):
                lines.append(' '.join(['0.01'] * r + [f'{0.1 * (i + r + 1):.2f}']))
        i += n
    lines.append('$SIGMA 0.5')
    lines.append(['$ESTIMATION METHOD=1 INTER', '$ESTIMATION METHOD=0', '$ESTIMATION METHOD=IMP'][_int(_get(spec, 'est', 0)) % 3])
    return '\n'.join(lines) + '\n'


def ref_from_rvs(rvs):
    ref = RefRVs()
    for d in rvs:
        names = list(d.names)
        if len(names) == 1:
            ref.add_block(names, d.level, {names[0]: from_expr(d.variance)}, {names[0]: from_expr(d.mean)}, {})
        else:
            V, M = d.variance, d.mean
            var = {n: from_expr(V[i, i]) for i, n in enumerate(names)}
            mean = {n: from_expr(M[i, 0]) for i, n in enumerate(names)}
            cov = {frozenset((a, c)): from_expr(V[i, j]) for i, a in enumerate(names) for j, c in enumerate(names) if j < i}
            ref.add_block(names, d.level, var, mean, cov)
    return ref


def run_joint_model(spec, _collect=None):
    from pharmpy.model import Model
    from pharmpy.modeling import create_joint_distribution, split_joint_distribution

    code = jm_code(spec)
    k, place, sizes = jm_layout(spec)
    model = guard(Model.parse_model_from_string, code, allowed=(), clause='parse')
    rvs = model.random_variables
    ref = ref_from_rvs(rvs)
    verify(rvs, ref, 'parse')
    etas = [n for b in ref.blocks if b.level == 'IIV' for n in b.names]
    if len(etas) != len(place):
        raise HarnessError(f'generated {len(place)} etas, parsed {etas}\n{code}')
    # which etas share a defining statement (the parameter names are derived from the statements)
    owners = [tuple(sorted({x for x in (s_, also) if x is not None})) for (s_, also, f) in place]
    share = len(set(owners)) < len(owners)
    classes = {f'etas={len(etas)}', 'blocks=' + '+'.join(map(str, sizes))}
    if any(also is not None for (_, also, _) in place):
        classes.add('eta_in_two_statements')
    if any(s_ == k for (s_, _, _) in place):
        classes.add('eta_directly_in_Y')
    ops = _get(spec, 'ops', [])
    trace = []
    soft = None
    evals = 1
    nontrivial = False
    for op in (ops if isinstance(ops, list) else [])[:3]:
        op = (list(op) if isinstance(op, list) else [op]) + [0, 0, 0]
        kind, sel, flag = _int(op[0]) % 6, _ilist(op[1]) or [0, 1], bool(_int(op[2]))
        names = ref.names()
        iiv = [n for n in names if ref.level_of(n) == 'IIV']
        prev = ref.copy()
        prev_blocks = prev.block_tuples()
        prev_inits = dict(model.parameters.inits)
        chosen = []
        for x in sel[:5]:
            n = iiv[x % len(iiv)]
            if n not in chosen:
                chosen.append(n)
        if kind <= 3:  # ------------------------------------------------------ create_joint_distribution
            if kind == 3:
                J, arg = list(iiv), None
            else:
                if len(chosen) < 2:
                    continue
                J = [n for n in names if n in chosen]  # collection order (parameter names follow the argument order)
                arg = list(J)
            step = 'create_joint'
            trace.append(f'create_joint_distribution({arg})')
            sharing = len({owners[etas.index(n)] for n in J}) < len(J)
            if sharing and _collect is not None:
                _collect.append('sharing')
            if _collect is not None and any(owners[etas.index(n)] == owners[i] for n in J for i in range(len(etas)) if etas[i] != n):
                _collect.append('sharing-any')
            ref.join(J, lambda c, r: ('new', f'{c}|{r}'))
            new_model = guard(create_joint_distribution, model, arg, individual_estimates=None, allowed=(), clause=step)
            if sharing:
                classes.add('joined_etas_share_statement')
                nontrivial = True
        else:  # --------------------------------------------------------------- split_joint_distribution
            U = chosen[: 1 + (len(sel) % 2)] if not flag else chosen
            if not any(len(b.names) > 1 and set(b.names) & set(U) for b in ref.blocks):
                continue
            step = 'split_joint'
            trace.append(f'split_joint_distribution({U})')
            ref.unjoin(U)
            new_model = guard(split_joint_distribution, model, list(U), allowed=(), clause=step)
            classes.add('split')
        new_rvs = new_model.random_variables
        detail = f'history={trace}; code={code!r}'
        actual = [tuple(d.names) for d in new_rvs]
        emu = rvref.check_order(prev_blocks, ref.block_tuples(), ref.block_tuples())
        if emu is not None and emu[0] == 'needless-change' and _collect is not None:
            _collect.append('needless')
        res = rvref.check_order(prev_blocks, ref.block_tuples(), actual)
        if res is not None:
            if res[0] == 'needless-change':
                if soft is None:
                    soft = Violation(f'order:needless-change:{step}', observed=actual, expected=[n for t in prev_blocks for n in t], detail=res[1] + '; ' + detail)
            else:
                raise Violation(f'{step}:{"blocks" if res[0] == "partition" else "order:" + res[0]}', observed=actual, expected=ref.block_tuples(), detail=res[1] + '; ' + detail)
        ref.adopt_order(actual)
        # bind the newly created covariance parameters: each must be a symbol, a parameter of the model, and unique
        pnames = set(new_model.parameters.names)
        for d in new_rvs:
            nm = list(d.names)
            if len(nm) < 2:
                continue
            V = d.variance
            lower = {}
            for i, a in enumerate(nm):
                for j, c in enumerate(nm[: i + 1]):
                    got = from_expr(V[i, j])
                    key = frozenset((a, c))
                    if i != j and ref.cov.get(key, ('n', 0.0))[0] == 'new':
                        if got[0] != 's':
                            raise Violation(f'{step}:new-covariance-not-a-parameter', observed=got, expected='a symbol', detail=f'({a},{c}); ' + detail)
                        ref.cov[key] = got
                    if got[0] == 's':
                        if got[1] in lower:
                            raise Violation(
                                f'{step}:one-parameter-for-two-elements', observed=[str(V[r, q]) for r in range(len(nm)) for q in range(r + 1)],
                                expected=f'{len(nm) * (len(nm) + 1) // 2} distinct parameters in the block of {nm}',
                                detail=f'{got[1]} is element ({a},{c}) and element {lower[got[1]]}; etas share a statement: {share}; ' + detail,
                            )
                        lower[got[1]] = (a, c)
        verify(new_rvs, ref, step)
        missing = sorted(set(new_rvs.parameter_names) - pnames)
        if missing:
            raise Violation(f'{step}:parameter-without-initial-estimate', observed=missing, detail=detail)
        inits = new_model.parameters.inits
        for d in new_rvs:
            if len(d.names) < 2:
                continue
            A = np.array(d.variance.subs(inits).to_numpy(), dtype=float)
            if rvref.eig_min(A) < -1e-10 * rvref.fro(A):
                raise Violation(f'{step}:block-not-psd', observed=A.tolist(), detail=detail)
            if rvref.classify(A) == 'pd':
                for r in range(A.shape[0]):
                    for q in range(r + 1):
                        e = from_expr(d.variance[r, q])
                        if e[0] == 's' and e[1] in prev_inits and inits[e[1]] != prev_inits[e[1]]:
                            raise Violation(f'{step}:valid-initial-estimate-altered', observed=inits[e[1]], expected=prev_inits[e[1]], detail=e[1] + '; ' + detail)
        model = new_model
        evals += 1
    if soft is not None:
        raise soft
    if share:
        classes.add('etas_share_statement')
    return CaseInfo(nontrivial=nontrivial, classes=tuple(sorted(classes)), key='|'.join(map(str, owners)) + '>' + ';'.join(trace) + '>' + '+'.join(map(str, sizes)), render=dict(code=code.splitlines(), history=trace, end=render_state(ref)), evals=evals)


def _jm_flags(spec):
    seen = []
    try:
        run_joint_model(spec, _collect=seen)
    except (Violation, Reject):
        pass
    return seen


def pred_jm_needless_reorder(spec):
    """alias of rv_needless_reorder_only for the model-level sub-check (decided on the reference model)"""
    return 'needless' in _jm_flags(spec)


def pred_jm_joined_share_statement(spec):
    """Known-finding predicate: the history contains a create_joint_distribution step joining two etas that are
    used by exactly the same statement(s) (decided from the generated layout and the resolved operation)."""
    return 'sharing' in _jm_flags(spec)


def pred_jm_joined_shares_with_any(spec):
    """Known-finding predicate: a create_joint_distribution step joins an eta that is used by exactly the same
    statement(s) as another eta of the model (joined or not)."""
    return 'sharing-any' in _jm_flags(spec)


# ------------------------------------------------------------------------------------------


def selfcheck():
    """Oracle self-checks: the reference module does not import the library under test; the
    clipping projection is PSD, idempotent and never farther than the identity shift; the
    sd/corr reference is its own inverse; the order judge accepts/rejects fixed examples."""
    import inspect

    src = inspect.getsource(rvref)
    if 'pharmpy' in src.replace('library under test', ''):
        raise HarnessError('pv/ref/rvref.py mentions pharmpy')
    A = np.array([[0.09, 0.5], [0.5, 0.09]])
    P = rvref.clip_projection(A)
    if not (rvref.eig_min(P) >= -1e-15 and np.allclose(rvref.clip_projection(P), P, atol=1e-15)):
        raise HarnessError('clip_projection self-check')
    if not np.allclose(P, 0.295, atol=1e-12):
        raise HarnessError('clip_projection value')
    if rvref.classify(A) != 'indef' or rvref.classify(np.eye(3)) != 'pd' or rvref.classify(np.ones((2, 2))) != 'near':
        raise HarnessError('classify self-check')
    C = np.array([[4.0, 0.5], [0.5, 16.0]])
    sd, corr = rvref.cov_to_sdcorr(C)
    if not (np.allclose(sd, [2, 4]) and abs(corr[0, 1] - 0.0625) < 1e-15 and np.allclose(rvref.sdcorr_to_cov(sd, corr), C, atol=1e-15)):
        raise HarnessError('sdcorr self-check')
    prev = [('A', 'B', 'C'), ('D',)]
    if rvref.check_order(prev, [('A', 'B'), ('C',), ('D',)], [('A', 'B'), ('C',), ('D',)]) is not None:
        raise HarnessError('check_order rejects the unchanged order')
    r = rvref.check_order(prev, [('A', 'B'), ('C',), ('D',)], [('C',), ('A', 'B'), ('D',)])
    if r is None or r[0] != 'needless-change':
        raise HarnessError('check_order accepts a needless move')
    if rvref.check_order(prev, [('A', 'C'), ('B',), ('D',)], [('B',), ('A', 'C'), ('D',)]) is not None:
        raise HarnessError('check_order rejects a needed move')
    if rvref.check_order(prev, [('A', 'C'), ('B',), ('D',)], [('A', 'C'), ('B',), ('D',)]) is not None:
        raise HarnessError('check_order rejects the other needed move')
    r = rvref.check_order(prev, [('A', 'C'), ('B',), ('D',)], [('D',), ('A', 'C'), ('B',)])
    if r is not None:
        # D is the only untouched distribution: its relative order to itself cannot change
        raise HarnessError('check_order: single unaffected block')
    r = rvref.check_order(prev, [('A', 'C'), ('B',), ('D',)], [('A', 'B'), ('C',), ('D',)])
    if r is None or r[0] != 'partition':
        raise HarnessError('check_order accepts a wrong partition')


def pred_zero_numeric_variance(spec):
    """Known-finding predicate: the collection starts with a variable whose variance is the number 0."""
    try:
        ref = initial_state(spec)
    except Reject:
        return False
    return any(is_zero(e) for e in ref.var.values())


def pred_single_normal(spec):
    """Known-finding predicate: the matrix is 1x1, i.e. the variance of a NormalDistribution."""
    return max(1, min(6, _int(_get(spec, 'n', 1)))) == 1


KNOWN_PREDICATES = {
    'ucp_negative_cholesky_offdiag': pred_ucp_negative_cholesky,
    'rv_needless_reorder_only': pred_needless_reorder,
    'rv_zero_numeric_variance': pred_zero_numeric_variance,
    'psd_single_normal': pred_single_normal,
    'jm_needless_reorder_only': pred_jm_needless_reorder,
    'jm_etas_share_statement': pred_jm_joined_share_statement,
    'jm_eta_shares_statement_with_any': pred_jm_joined_shares_with_any,
}

SUBCHECKS = [
    SubCheck('rv_algebra', lambda: RV_SPEC, run_rv_algebra, quick=3600, thorough=37440),
    SubCheck('psd_repair', lambda: PSD_SPEC, run_psd_repair, quick=2000, thorough=20800),
    SubCheck('conversions', lambda: CONV_SPEC, run_conversions, quick=1000, thorough=10400),
    SubCheck('ucp', lambda: UCP_SPEC, run_ucp, quick=1400, thorough=14560),
    SubCheck('joint_model', lambda: JM_SPEC, run_joint_model, quick=640, thorough=6400),
]
