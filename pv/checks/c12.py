"""C12 -- Serialisation round-trips; model hashes identify models across processes.

Sub-checks

components    from_dict(to_dict(x)) == x, json.dumps(to_dict(x)) succeeds, json.loads(json.dumps(d)) == d
              modulo tuple/list, from_dict(json form) == x, to_dict(from_dict(json form)) is a fixed point --
              for generated Parameter(s), distributions / RandomVariables (C11 generator), Assignment /
              CompartmentalSystem / Statements (C10 and C05 generators), ColumnInfo / DataInfo,
              Estimation- / SimulationStep / ExecutionSteps, Expr / Matrix (serialize / deserialize) and
              whole models (start models + <=3 modeling transformations, synthetic models around C05 systems).
generic_code  g = convert_model(M, 'generic'); read_model_from_string(g.code) == g and the code is a fixed point.
hash_process  a batch of recipes is written to a scratch file; 4 fresh interpreters (PYTHONHASHSEED 0, 1, 2 and
              one drawn by the generator) rebuild every model and print str(ModelHash(M)) together with an
              order-insensitive content fingerprint computed by this module; the key (and the content) must be
              the same in all of them.  The batch also holds 20-30 generated components (DataInfo with string /
              mapping categories, descriptors, units; execution steps with tool options; random variables;
              compartmental systems ...) whose to_dict() JSON text must be identical in all interpreters.
hash_content  (i) one content reached through two construction histories (M == M' by pharmpy's own ==, same
              dataset, same order-insensitive fingerprint) => same key; name / description / datainfo path
              changes => same key; (ii) exactly one edit (parameter init / bound / fix, rv variance symbol,
              one statement, one execution-step option, one dataset cell, one column dtype) => different key.

Worker entry point:  python -m pv.checks.c12 --worker <batch file>
"""

from __future__ import annotations

import hashlib
import json
import os
import shutil
import subprocess
import sys
import warnings

from hypothesis import strategies as st

from ..core import VERIF_DIR, CaseInfo, HarnessError, Reject, SubCheck, Violation, guard, innermost_pharmpy_frame

PROPERTY = 'C12'
LEVEL = 'exploration'
RULE = (
    'components: one generated object per case out of {Parameters (<=6, finite/infinite bounds, fix), RandomVariables '
    '(C11 layout generator), Statements (C10 programs with 0-3 compartment ODE; C05 direct systems and builder '
    'histories wrapped in assignments), DataInfo (<=6 columns over all types / scales / units / categories forms / '
    'datatypes / descriptors), Compartment (0-3 doses in stored order incl. Bolus before Infusion, lag / F / input), ExecutionSteps (<=3 estimation / simulation steps over all fields incl. tool options, '
    'solver, derivatives), Expr / Matrix (ASTs of depth <=3 over symbols, ints, floats, rationals, + * ** exp log sqrt '
    'abs sign floor, Piecewise with relational/And/Or conditions, amount functions, derivatives, PHI), Model (recipe)}. '
    'A recipe is a start model (ivoral model with two dosing compartments, basic iv/oral, pheno, checked-in test '
    'models; or a synthetic model around a C05 system / builder history) + <=3 modeling transformations (inapplicable '
    'ones are skipped) + optionally CompartmentalSystemBuilder.add_dose of a second dose (Bolus / Infusion) on a dosing compartment (inapplicable '
    'ones are skipped) + optionally initial individual estimates (3-25 individuals with ascending / descending / permuted / sparse ids, 1-11 columns incl. '
    'non-sorted labels) + optionally categories / descriptor / unit annotations of data columns + optional dataset edits. hash_process: batches of 8-12 recipes and 20-30 components x 4 interpreters. '
    'hash_content: builder operations in permuted order, builder history vs direct construction, symbol renaming '
    'there and back (rename_symbols / CompartmentalSystem.subs), transformation followed by its inverse, mapping '
    'order of tool options / dependent variables, metadata changes; nine kinds of single edits. '
    'Non-trivial = the ODE system has >=3 compartments and went through >=1 operation that replaced an existing '
    'compartment node (relabelling), or the model has >=2 dosing compartments. Distinct = hash of the spec (recipe).'
)
ASSUMPTIONS = [
    'dictionaries are compared modulo tuple/list (the property says JSON-compatible); dict keys must be strings',
    'content equality of two models = pharmpy Model.__eq__ and equal datasets (values, columns, index, dtypes) and equal '
    'to_dict() after sorting mapping keys, putting compartments / flows of a CompartmentalSystem in name order and reading 0 and 0.0 as the same number; '
    'pairs that are == but differ in that fingerprint are counted (class eq-but-fingerprint-differs), not flagged',
    'hash_process: the same construction steps must give the same key in every interpreter; a difference is reported as '
    'process-key-differs when the order-insensitive content is the same and as process-content-differs when a construction step '
    'itself gives a different model depending on PYTHONHASHSEED; to_dict() texts of generated components are compared too',
    'transformations that raise on a model are skipped (the resulting recipe is the model without that step)',
    'sub-process time-outs (900 s per batch) are harness errors',
    'SimulationStep objects with solver / tool options are built with the constructor (SimulationStep.create drops them)',
]

SCRATCH = os.path.join(VERIF_DIR, '.scratch')
MARK = '@@C12 '

# ------------------------------------------------------------------------------------------
# small total helpers


def _int(x):
    if isinstance(x, bool):
        return int(x)
    if isinstance(x, int):
        return x
    if isinstance(x, float) and x == x and abs(x) < 1e9:
        return int(x)
    if isinstance(x, (list, str, dict)):
        return len(x)
    return 0


def _list(x):
    return x if isinstance(x, list) else []


def _dict(x):
    return x if isinstance(x, dict) else {}


def _pad(x, n):
    return (_list(x) + [0] * n)[:n]


def _float(x, default=0.5):
    if isinstance(x, bool):
        return float(x)
    if isinstance(x, (int, float)) and x == x and abs(x) != float('inf'):
        return float(x)
    return default


def jnorm(x):
    """tuples -> lists (recursively); dict keys untouched"""
    if isinstance(x, dict):
        return {k: jnorm(v) for k, v in x.items()}
    if isinstance(x, (list, tuple)):
        return [jnorm(v) for v in x]
    return x


def retuple(x):
    """lists -> tuples (recursively)"""
    if isinstance(x, dict):
        return {k: retuple(v) for k, v in x.items()}
    if isinstance(x, (list, tuple)):
        return tuple(retuple(v) for v in x)
    return x


def non_json(x, path='$'):
    """path of the first value json cannot represent faithfully (None when fine)"""
    if isinstance(x, dict):
        for k, v in x.items():
            if not isinstance(k, str):
                return f'{path}: key {k!r} of type {type(k).__name__}'
            r = non_json(v, f'{path}.{k}')
            if r:
                return r
        return None
    if isinstance(x, (list, tuple)):
        for i, v in enumerate(x):
            r = non_json(v, f'{path}[{i}]')
            if r:
                return r
        return None
    if x is None or isinstance(x, (str, int, float, bool)):
        return None
    return f'{path}: value of type {type(x).__name__}'


UNORDERED_MAPPINGS = ('tool_options', 'dependent_variables', 'observation_transformation', 'categories')


def first_diff(a, b, path='$', strict=False, ordered=False):
    """first difference of two JSON values; strict: int vs float counts; ordered: the key order of mappings
    counts too (except below the mappings whose order has no meaning)"""
    if type(a) is not type(b) and (strict or not (isinstance(a, (int, float)) and isinstance(b, (int, float)) and not isinstance(a, bool) and not isinstance(b, bool))):
        return f'{path}: {type(a).__name__} {str(a)[:80]!r} vs {type(b).__name__} {str(b)[:80]!r}'
    if isinstance(a, dict):
        if list(a.keys()) != list(b.keys()):
            if sorted(map(repr, a.keys())) != sorted(map(repr, b.keys())):
                return f'{path}: keys {list(a.keys())[:8]} vs {list(b.keys())[:8]}'
            if ordered and path.rsplit('.', 1)[-1] not in UNORDERED_MAPPINGS:
                return f'{path}: key order {list(a.keys())[:12]} vs {list(b.keys())[:12]}'
        for k in a:
            if k in b:
                r = first_diff(a[k], b[k], f'{path}.{k}', strict, ordered)
                if r:
                    return r
        return None
    if isinstance(a, list):
        if len(a) != len(b):
            return f'{path}: length {len(a)} vs {len(b)}'
        for i, (x, y) in enumerate(zip(a, b)):
            r = first_diff(x, y, f'{path}[{i}]', strict, ordered)
            if r:
                return r
        return None
    if a != b and not (a != a and b != b):
        return f'{path}: {a!r} vs {b!r}'
    return None


def canon(x):
    """order-insensitive form of a to_dict() result: compartments of a CompartmentalSystem in (Output, json text)
    order with flows renumbered and sorted; mapping keys are sorted when dumping"""
    if isinstance(x, dict):
        if x.get('class') == 'CompartmentalSystem' and 'compartments' in x and 'rates' in x:
            comps = [canon(c) for c in x['compartments']]
            keys = [json.dumps(c, sort_keys=True, default=repr) for c in comps]
            order = sorted(range(len(comps)), key=lambda i: (_dict(comps[i]).get('class') != 'Output', keys[i]))
            pos = {old: new for new, old in enumerate(order)}
            rates = sorted([pos[r[0]], pos[r[1]], r[2]] for r in x['rates'])
            out = {k: canon(v) for k, v in x.items() if k not in ('compartments', 'rates')}
            out['compartments'] = [comps[i] for i in order]
            out['rates'] = rates
            return out
        return {str(k): canon(v) for k, v in x.items()}
    if isinstance(x, (list, tuple)):
        return [canon(v) for v in x]
    return x


def digest(x, canonical):
    text = json.dumps(canon(x), sort_keys=True, default=repr) if canonical else json.dumps(jnorm(x), default=repr)
    return hashlib.sha256(text.encode()).hexdigest()[:16]


def dataset_fingerprint(df):
    if df is None:
        return 'none'
    h = hashlib.sha256()
    h.update(repr(list(df.columns)).encode())
    h.update(repr([str(t) for t in df.dtypes]).encode())
    h.update(repr(list(df.index)).encode())
    for col in df.columns:
        h.update(repr([repr(v) for v in df[col].tolist()]).encode())
    return h.hexdigest()[:16]


def same_dataset(a, b):
    if a is None or b is None:
        return a is None and b is None
    return list(a.columns) == list(b.columns) and [str(t) for t in a.dtypes] == [str(t) for t in b.dtypes] and a.index.equals(b.index) and a.equals(b)


def model_fingerprint(model):
    """(order-insensitive content fingerprint, per-component raw digests, per-component canonical digests)"""
    d = model.to_dict()
    raw = {k: digest(v, False) for k, v in d.items()}
    can = {k: digest(v, True) for k, v in d.items()}
    ds = dataset_fingerprint(model.dataset)
    fp = hashlib.sha256((json.dumps(can, sort_keys=True) + ds).encode()).hexdigest()[:20]
    return fp, raw, can


# ------------------------------------------------------------------------------------------
# generators of components (JSON specs) and their total interpretation

_i = st.integers(0, 40)
_f = st.one_of(
    st.floats(min_value=-1e6, max_value=1e6, allow_nan=False, allow_infinity=False),
    st.sampled_from([0.0, 1.0, 0.1, 0.005, 1e-10, 123456.789, -0.5, 3.0, 1e5, 2.5e-7]),
)

PNAMES = ['THETA(1)', 'POP_CL', 'TVV', 'IIV_CL', 'OMEGA(1,1)', 'SIGMA_1_1', 'p', 'K12', 'x_1', 'THETA_2', 'IVCL', 'OMEGA_IOV_1']

PARAM = st.fixed_dictionaries(dict(name=_i, init=_f, lo=st.integers(0, 3), up=st.integers(0, 3), d1=_f, d2=_f, fix=st.booleans()))
PARAMS_SPEC = st.fixed_dictionaries(dict(kind=st.just('parameters'), params=st.lists(PARAM, min_size=0, max_size=6)))


def build_parameters(spec):
    from pharmpy.model import Parameter, Parameters

    ps = []
    seen = set()
    for k, p in enumerate(_list(spec.get('params'))[:6]):
        p = _dict(p)
        nm = PNAMES[_int(p.get('name')) % len(PNAMES)]
        if nm in seen:
            nm = f'{nm}_{k}'
        seen.add(nm)
        init = _float(p.get('init'))
        lo = [None, init - abs(_float(p.get('d1'))) - 1e-3, init, 0.0 if init >= 0 else None][_int(p.get('lo')) % 4]
        up = [None, init + abs(_float(p.get('d2'))) + 1e-3, init, 1e6 if init <= 1e6 else None][_int(p.get('up')) % 4]
        ps.append(guard(Parameter.create, nm, init, lower=lo, upper=up, fix=bool(p.get('fix')), clause='build:Parameter', internal_is_violation=False))
    return guard(Parameters.create, ps, clause='build:Parameters', internal_is_violation=False)


def RVS_SPEC():
    from . import c11

    return st.fixed_dictionaries(dict(kind=st.just('rvs'), rv=c11.RV_SPEC))


def build_rvs(spec):
    from pharmpy.model import RandomVariables

    from . import c11

    ref = c11.initial_state(_dict(spec.get('rv')))
    try:
        dists = [c11.build_dist(ref, b) for b in ref.blocks]
        return RandomVariables.create(dists)
    except ValueError as e:
        raise Reject(f'rvs: {e}')


def PROG_SPEC():
    from . import c10

    return st.fixed_dictionaries(dict(kind=st.just('statements'), prog=c10.PROG))


def build_prog_statements(spec):
    from . import c10

    p = _dict(spec.get('prog'))
    if not _list(p.get('prog')):
        raise Reject('empty program')
    try:
        prog = c10.Prog(p)
        return c10.build_statements(prog), prog.ncomp
    except (Violation, HarnessError, KeyError, TypeError, IndexError, AttributeError) as e:
        raise Reject(f'c10 generator: {type(e).__name__}')


def CS_SPEC():
    from . import c05

    return st.one_of(
        st.fixed_dictionaries(dict(kind=st.just('cs'), cs=c05.DIRECT)),
        st.fixed_dictionaries(dict(kind=st.just('cs'), cs=c05.HISTORY)),
        st.fixed_dictionaries(dict(kind=st.just('cs'), cs=c05.HISTORY)),
    )


CDOSE = st.tuples(st.integers(0, 2), st.integers(0, 2), st.integers(0, 1), st.integers(0, 1)).map(list)
COMPARTMENT_SPEC = st.fixed_dictionaries(
    dict(
        kind=st.just('compartment'), name=st.integers(0, 7),
        doses=st.one_of(st.lists(CDOSE, max_size=3), st.lists(CDOSE, min_size=2, max_size=3), st.tuples(st.tuples(st.just(0), st.integers(0, 2), st.integers(0, 1), st.integers(0, 1)).map(list), st.tuples(st.integers(1, 2), st.integers(0, 2), st.integers(0, 1), st.integers(0, 1)).map(list)).map(list)),
        lag=st.integers(0, 3), bio=st.integers(0, 3), inp=st.integers(0, 3), wrap=st.booleans(),
    )
)


def build_compartment(spec):
    """one Compartment with 0-3 doses in the given (stored) order, optionally inside a one-compartment system"""
    from pharmpy.model import Compartment, CompartmentalSystem, CompartmentalSystemBuilder, output

    from . import c05

    name = c05.NAMES[_int(spec.get('name')) % len(c05.NAMES)]
    doses = tuple(c05.p_dose(c05.mk_dose(d)) for d in _list(spec.get('doses'))[:3])
    aux = lambda k, prefix, default: default if _int(k) % 4 == 0 else c05.px(c05.mk_aux([_int(k) % 3, _int(k), _int(k) + 1], prefix))  # noqa: E731
    comp = guard(
        Compartment.create, name, doses=doses, lag_time=aux(spec.get('lag'), 'ALAG', 0), bioavailability=aux(spec.get('bio'), 'FB', 1), input=aux(spec.get('inp'), 'RIN', 0),
        clause='build:Compartment', internal_is_violation=False,
    )
    if not spec.get('wrap'):
        return comp, comp
    cb = CompartmentalSystemBuilder()
    cb.add_compartment(comp)
    cb.add_flow(comp, output, 'K0')
    return CompartmentalSystem(cb), comp


def bolus_before_infusion(x):
    """some compartment of x (Compartment, CompartmentalSystem, Statements or Model) stores >= 2 doses with
    a Bolus before an Infusion (the order the public `doses` property rearranges)"""
    from pharmpy.model import Bolus, Compartment, CompartmentalSystem, Infusion, Model, Statements

    if isinstance(x, Model):
        x = x.statements
    if isinstance(x, Statements):
        return any(bolus_before_infusion(s) for s in x if isinstance(s, CompartmentalSystem))
    if isinstance(x, CompartmentalSystem):
        return any(bolus_before_infusion(c) for c in x._g.nodes if isinstance(c, Compartment))
    if isinstance(x, Compartment):
        ds = x._doses
        return any(isinstance(ds[i], Bolus) and isinstance(ds[j], Infusion) for i in range(len(ds)) for j in range(i + 1, len(ds)))
    return False


class BuiltCS:
    def __init__(self, cs, ref, relabel, log):
        self.cs = cs
        self.ref = ref
        self.relabel = relabel
        self.log = log


RELABEL_KINDS = ('mvd', 'setd', 'addd', 'rmd', 'lag', 'F', 'inp')


def build_cs(cspec, direct_of_final=False, perm=None, eperm=None):
    """C05 direct system or builder history -> BuiltCS.  direct_of_final: construct the final reference
    system of the history directly instead of replaying the operations; perm/eperm: permutations (lists of
    ints, interpreted totally) of the compartment / flow insertion order of the direct construction."""
    from . import c05
    from ..ref.cmtref import RefSystem

    cspec = _dict(cspec)
    if not isinstance(cspec.get('sys'), dict):
        raise Reject('no system spec')
    try:
        relabel = False
        log = []
        if _list(cspec.get('ops')) and not direct_of_final:
            h = c05.Hist(cspec)
            cs = c05.freeze(h.cb)
            for o in _list(cspec.get('ops'))[:10]:
                label = h.step(o, cs)
                if label is not None:
                    cs = c05.freeze(h.cb)
                    if label in RELABEL_KINDS:
                        relabel = True
            return BuiltCS(cs, h.ref, relabel, list(h.log))
        if _list(cspec.get('ops')):
            h = c05.Hist(cspec, dry=True)
            for o in _list(cspec.get('ops'))[:10]:
                h.step(o, None)
            ref = h.ref
        else:
            ref = c05.ref_direct(cspec['sys'])
        if perm is not None or eperm is not None:
            r2 = RefSystem()
            names = list(ref.comps)
            for k in _pad(perm, len(names)):
                nm = names.pop(_int(k) % len(names))
                r2.comps[nm] = ref.comps[nm]
            keys = list(ref.edges)
            for k in _pad(eperm, len(keys)):
                e = keys.pop(_int(k) % len(keys))
                r2.edges[e] = ref.edges[e]
            ref = r2
        return BuiltCS(c05.freeze(c05.build_direct(ref)), ref, False, log)
    except (Violation, HarnessError) as e:
        raise Reject(f'c05 generator: {getattr(e, "clause", type(e).__name__)}')
    except (KeyError, TypeError, IndexError, AttributeError, AssertionError, ValueError) as e:
        raise Reject(f'c05 generator: {type(e).__name__}')


UNITS = ['1', 'mg', 'mg/L', 'kg', 'h', 'L/h', 'ml', 'kg**2', 'mg*h/L', 'd', 'ug/ml', 'cm']
CNAMES = ['ID', 'TIME', 'AMT', 'DV', 'WGT', 'APGR', 'CMT', 'EVID', 'RATE', 'SEX', 'DVID', 'X1']
CATS = [None, [1, 2], [0, 1, 2, 3], ['a', 'b'], {'a': 1, 'b': 2}, {'male': 'M', 'female': 'F'}, [], [1.5, 2.5], ['low', 'mid', 'high', 'unknown'], ['M', 'F', 'U'], {'no': 0, 'yes': 1, 'unknown': 9}]

COLUMN = st.fixed_dictionaries(
    dict(name=_i, type=_i, scale=st.integers(0, 3), unit=_i, cont=st.integers(0, 2), cats=st.integers(0, 23), drop=st.booleans(), dtype=_i, desc=_i)
)
DATAINFO_SPEC = st.fixed_dictionaries(
    dict(kind=st.just('datainfo'), cols=st.lists(COLUMN, min_size=0, max_size=6), path=st.integers(0, 2), sep=st.integers(0, 2), mdt=st.integers(0, 2))
)


def build_datainfo(spec):
    from pharmpy.model import ColumnInfo, DataInfo

    cols = []
    seen = set()
    for k, c in enumerate(_list(spec.get('cols'))[:6]):
        c = _dict(c)
        nm = CNAMES[_int(c.get('name')) % len(CNAMES)]
        if nm in seen:
            nm = f'{nm}{k}'
        seen.add(nm)
        scale = ColumnInfo._all_scales[_int(c.get('scale')) % len(ColumnInfo._all_scales)]
        cont = [None, True, False][_int(c.get('cont')) % 3]
        if scale in ('nominal', 'ordinal'):
            cont = False if cont else cont
        ck = _int(c.get('cats'))
        cats = CATS[ck % len(CATS)] if ck < 16 else None
        cols.append(
            guard(
                ColumnInfo.create, nm, type=ColumnInfo._all_types[_int(c.get('type')) % len(ColumnInfo._all_types)], unit=UNITS[_int(c.get('unit')) % len(UNITS)],
                scale=scale, continuous=cont, categories=cats, drop=bool(c.get('drop')), datatype=ColumnInfo._all_dtypes[_int(c.get('dtype')) % len(ColumnInfo._all_dtypes)],
                descriptor=ColumnInfo._all_descriptors[_int(c.get('desc')) % len(ColumnInfo._all_descriptors)], allowed=(ValueError, TypeError), clause='build:ColumnInfo', internal_is_violation=False,
            )
        )
    path = [None, '/tmp/data.csv', 'rel/data.csv'][_int(spec.get('path')) % 3]
    sep = [',', r'\s+', ';'][_int(spec.get('sep')) % 3]
    mdt = [None, '-99', '.'][_int(spec.get('mdt')) % 3]
    return guard(DataInfo.create, cols, path=path, separator=sep, missing_data_token=mdt, allowed=(ValueError, TypeError), clause='build:DataInfo', internal_is_violation=False)


METHODS = ['FO', 'FOCE', 'ITS', 'IMPMAP', 'IMP', 'SAEM', 'BAYES']
UNCERT = [None, None, 'SANDWICH', 'SMAT', 'RMAT', 'EFIM']
SOLVERS = [None, None, 'CVODES', 'DGEAR', 'DVERK', 'IDA', 'LSODA', 'LSODI']
OPTINT = [None, None, 1, 10, 300, 9999]
PREDS = ['PRED', 'IPRED', 'CIPREDI', 'EPRED']
RESIDS = ['RES', 'WRES', 'CWRES', 'IWRES']
TOOLOPTS = [('NITER', 10), ('SIGL', 9), ('PRINT', '1'), ('RANMETHOD', 'P'), ('CTYPE', 4.0), ('NOABORT', True), ('FNLETA', None)]
DSYMS = ['ETA_CL', 'ETA_V', 'EPS_1', 'ETA(1)']

STEP = st.fixed_dictionaries(
    dict(
        sim=st.sampled_from([0, 0, 0, 1]), method=_i, inter=st.booleans(), unc=_i, evaluation=st.booleans(), maxeval=_i, laplace=st.booleans(), isample=_i, niter=_i,
        auto=st.integers(0, 2), keep=_i, resid=st.lists(st.integers(0, 3), max_size=3), pred=st.lists(st.integers(0, 3), max_size=3), solver=_i, rtol=_i, atol=_i,
        topts=st.lists(st.integers(0, 6), max_size=3), deriv=st.one_of(st.just([]), st.lists(st.lists(st.integers(0, 3), min_size=1, max_size=2), max_size=2)), ies=st.booleans(),
        n=st.integers(1, 50), seed=st.integers(0, 99999),
    )
)
STEPS_SPEC = st.fixed_dictionaries(dict(kind=st.just('steps'), steps=st.lists(STEP, min_size=0, max_size=3)))


def _tool_options(s):
    out = {}
    for k in _list(s.get('topts'))[:3]:
        key, val = TOOLOPTS[_int(k) % len(TOOLOPTS)]
        out[key] = val
    return out


def build_step(s):
    from pharmpy.basic import Expr
    from pharmpy.internals.immutable import frozenmapping
    from pharmpy.model import EstimationStep, SimulationStep

    s = _dict(s)
    solver = SOLVERS[_int(s.get('solver')) % len(SOLVERS)]
    rtol = OPTINT[_int(s.get('rtol')) % len(OPTINT)]
    atol = OPTINT[_int(s.get('atol')) % len(OPTINT)]
    if _int(s.get('sim')) % 2 == 1:
        n = max(1, _int(s.get('n')))
        return SimulationStep(n=n, seed=_int(s.get('seed')), solver=solver, solver_rtol=rtol, solver_atol=atol, tool_options=frozenmapping(_tool_options(s)))
    derivs = []
    for d in _list(s.get('deriv'))[:2]:
        names = sorted({DSYMS[_int(k) % len(DSYMS)] for k in _list(d)[:2]})
        if names:
            derivs.append([Expr.symbol(n) for n in names])
    return guard(
        EstimationStep.create, METHODS[_int(s.get('method')) % len(METHODS)], interaction=bool(s.get('inter')), parameter_uncertainty_method=UNCERT[_int(s.get('unc')) % len(UNCERT)],
        evaluation=bool(s.get('evaluation')), maximum_evaluations=OPTINT[_int(s.get('maxeval')) % len(OPTINT)], laplace=bool(s.get('laplace')), isample=OPTINT[_int(s.get('isample')) % len(OPTINT)],
        niter=OPTINT[_int(s.get('niter')) % len(OPTINT)], auto=[None, True, False][_int(s.get('auto')) % 3], keep_every_nth_iter=OPTINT[_int(s.get('keep')) % len(OPTINT)],
        residuals=[RESIDS[_int(k) % 4] for k in _list(s.get('resid'))[:3]], predictions=[PREDS[_int(k) % 4] for k in _list(s.get('pred'))[:3]], solver=solver, solver_rtol=rtol, solver_atol=atol,
        tool_options=_tool_options(s), derivatives=tuple(derivs), individual_eta_samples=bool(s.get('ies')), allowed=(ValueError, TypeError), clause='build:EstimationStep', internal_is_violation=False,
    )


def build_steps(spec):
    from pharmpy.model import ExecutionSteps

    return ExecutionSteps.create([build_step(s) for s in _list(spec.get('steps'))[:3]])


ESYMS = ['x', 'y', 'THETA(1)', 'ETA_CL', 'CL', 'V', 'WGT', 't', 'lambda', 'S1', 'E', 'EPS(1)']
ENUMS = [0, 1, 2, -1, 3, 10, 100, 70]
EFLOATS = [0.5, 0.1, 1.5, 0.75, 1e-5, 2.718281828459045, 0.3333333333333333, 1e10, 123.456, 0.30000000000000004]
EFUNCS = ['exp', 'log', 'sqrt', 'abs', 'sign', 'floor', 'phi', 'amt', 'damt', 'neg', 'inv', 'gamma']
ERELS = ['lt', 'le', 'gt', 'ge', 'eq', 'ne', 'and', 'or']


def _expr(depth):
    leaf = st.one_of(
        st.tuples(st.just('s'), _i),
        st.tuples(st.just('s'), _i),
        st.tuples(st.just('i'), _i),
        st.tuples(st.just('f'), _i),
        st.tuples(st.just('F'), st.floats(min_value=-1e9, max_value=1e9, allow_nan=False, allow_infinity=False)),
        st.tuples(st.just('r'), st.integers(-9, 9), st.integers(1, 9)),
    )
    if depth == 0:
        return leaf
    sub = _expr(depth - 1)
    return st.one_of(
        leaf,
        st.tuples(st.sampled_from(['+', '*', '**']), sub, sub),
        st.tuples(st.just('fn'), _i, sub),
        st.tuples(st.just('pw'), _i, sub, sub, sub, sub, st.booleans()),
    )


def _tolist(x):
    if isinstance(x, tuple):
        return [_tolist(v) for v in x]
    return x


EXPR = _expr(3).map(_tolist)
EXPR_SPEC = st.fixed_dictionaries(dict(kind=st.just('expr'), e=EXPR, wrap=st.sampled_from([0, 0, 0, 1, 2, 3])))
MATRIX_SPEC = st.fixed_dictionaries(dict(kind=st.just('matrix'), rows=st.integers(1, 3), cols=st.integers(1, 3), es=st.lists(_expr(1).map(_tolist), min_size=9, max_size=9)))


def to_sympy(a, depth=0):
    import sympy

    if not isinstance(a, list) or not a or depth > 6:
        return sympy.Integer(1)
    op = a[0]
    arg = lambda k: to_sympy(a[k], depth + 1) if len(a) > k else sympy.Integer(1)  # noqa: E731
    if op == 's':
        return sympy.Symbol(ESYMS[_int(a[1] if len(a) > 1 else 0) % len(ESYMS)])
    if op == 'i':
        return sympy.Integer(ENUMS[_int(a[1] if len(a) > 1 else 0) % len(ENUMS)])
    if op == 'f':
        return sympy.Float(EFLOATS[_int(a[1] if len(a) > 1 else 0) % len(EFLOATS)])
    if op == 'F':
        return sympy.Float(_float(a[1] if len(a) > 1 else 0.5))
    if op == 'r':
        return sympy.Rational(_int(a[1] if len(a) > 1 else 1), max(1, abs(_int(a[2] if len(a) > 2 else 1))))
    if op == '+':
        return arg(1) + arg(2)
    if op == '*':
        return arg(1) * arg(2)
    if op == '**':
        e = arg(2)
        if not (e.is_Integer and abs(e) <= 3) and not e.is_Symbol:
            e = sympy.Integer(2)
        return arg(1) ** e
    if op == 'fn':
        f = EFUNCS[_int(a[1] if len(a) > 1 else 0) % len(EFUNCS)]
        x = arg(2)
        t = sympy.Symbol('t')
        if f == 'amt':
            return sympy.Function('A_CENTRAL')(t) * x
        if f == 'damt':
            return sympy.Derivative(sympy.Function('A_CENTRAL')(t), t) + x
        if f == 'phi':
            return sympy.Function('PHI')(x)
        if f == 'neg':
            return -x
        if f == 'inv':
            return 1 / (x + sympy.Symbol('V'))
        if f == 'abs':
            return sympy.Abs(x)
        return getattr(sympy, f)(x)
    if op == 'pw':
        rel = ERELS[_int(a[1] if len(a) > 1 else 0) % len(ERELS)]
        l, r = _nopw(arg(2)), _nopw(arg(3))
        x, y = sympy.Symbol('x'), sympy.Symbol('WGT')
        cond = {
            'lt': sympy.Lt(l, r), 'le': sympy.Le(l, r), 'gt': sympy.Gt(l, r), 'ge': sympy.Ge(l, r), 'eq': sympy.Eq(x, r), 'ne': sympy.Ne(y, r),
            'and': sympy.And(sympy.Lt(x, r), sympy.Ge(y, l)), 'or': sympy.Or(sympy.Lt(x, r), sympy.Gt(y, l)),
        }[rel]
        if cond in (sympy.true, sympy.false) or not isinstance(cond, sympy.logic.boolalg.Boolean):
            cond = sympy.Lt(x, 1)
        if len(a) > 6 and a[6]:
            return sympy.Piecewise((arg(4), cond), (arg(5), True))
        return sympy.Piecewise((arg(4), cond))
    return sympy.Integer(1)


def _nopw(e):
    import sympy

    if e.has(sympy.Piecewise) or not e.is_real and e.is_real is not None:
        return sympy.Symbol('y')
    return e


def build_expr(spec):
    from pharmpy.basic import Expr

    try:
        with quiet_ctx():
            s = to_sympy(spec.get('e'))
    except (ZeroDivisionError, ValueError, TypeError, OverflowError, RecursionError) as e:
        raise Reject(f'sympy construction: {type(e).__name__}')
    import sympy

    if s.has(sympy.zoo, sympy.nan, sympy.oo, sympy.I) or s.has(sympy.AccumBounds):
        raise Reject('non-finite / complex constant')
    e = guard(Expr, s, allowed=(TypeError, ValueError, RuntimeError), clause='build:Expr', internal_is_violation=False)
    # arithmetic through pharmpy's own operators (symengine keeps number*(sum) undistributed)
    wrap = _int(spec.get('wrap')) % 4
    if wrap == 1:
        e = guard(lambda: (e + Expr.symbol('x')) / 2, allowed=(TypeError, ValueError, RuntimeError), clause='build:Expr', internal_is_violation=False)
    elif wrap == 2:
        e = guard(lambda: 3 * (e - Expr.symbol('WGT')), allowed=(TypeError, ValueError, RuntimeError), clause='build:Expr', internal_is_violation=False)
    elif wrap == 3:
        e = guard(lambda: (e * Expr.symbol('V')).exp() + 1, allowed=(TypeError, ValueError, RuntimeError), clause='build:Expr', internal_is_violation=False)
    return e


def build_matrix(spec):
    from pharmpy.basic import Matrix

    import sympy

    r = 1 + (_int(spec.get('rows')) - 1) % 3
    c = 1 + (_int(spec.get('cols')) - 1) % 3
    es = _pad(spec.get('es'), 9)
    try:
        rows = [[to_sympy(es[i * 3 + j]) for j in range(c)] for i in range(r)]
    except (ZeroDivisionError, ValueError, TypeError, OverflowError) as e:
        raise Reject(f'sympy construction: {type(e).__name__}')
    if any(x.has(sympy.zoo, sympy.nan, sympy.oo, sympy.I) for row in rows for x in row):
        raise Reject('non-finite / complex constant')
    return guard(Matrix, rows, allowed=(TypeError, ValueError, RuntimeError), clause='build:Matrix', internal_is_violation=False)


class quiet_ctx:
    def __enter__(self):
        self._cm = warnings.catch_warnings()
        self._cm.__enter__()
        warnings.simplefilter('ignore')
        return self

    def __exit__(self, *a):
        return self._cm.__exit__(*a)


# ------------------------------------------------------------------------------------------
# recipes: start model + transformations (+ dataset edits) -> model; shared by all model sub-checks
# and by the worker processes

STARTS = ['ivoral', 'basic_oral', 'ivoral', 'mox2', 'basic_iv', 'pheno', 'pheno_advan3', 'mox_2comp', 'basic_oral_nm', 'pheno_real', 'mox1', 'pheno_dvid', 'pheno5', 'basic_iv_nm']

_START_CACHE = {}
_OWN_DIRS = []


def _own_scratch():
    d = os.path.join(SCRATCH, f'c12_{os.getpid()}')
    if d not in _OWN_DIRS:
        os.makedirs(d, exist_ok=True)
        _OWN_DIRS.append(d)
        import atexit

        atexit.register(shutil.rmtree, d, True)
    return d


def _clean_corpus_dir():
    """pv.corpus writes the event dataset of the basic models to .scratch/corpus_<pid> and leaves it there"""
    d = os.path.join(SCRATCH, f'corpus_{os.getpid()}')
    if d not in _OWN_DIRS and os.path.isdir(d):
        _OWN_DIRS.append(d)
        import atexit

        atexit.register(shutil.rmtree, d, True)


def start_model(name):
    if name in _START_CACHE:
        return _START_CACHE[name]
    from .. import corpus

    with quiet_ctx():
        if name == 'ivoral':
            import pandas as pd
            from pharmpy.modeling import create_basic_pk_model

            df = corpus._event_dataset()
            df['CMT'] = 1
            rows = []
            for i in sorted(df['ID'].unique()):
                rows.append(dict(ID=i, TIME=24.0, AMT=50.0 + i, DV=0.0, WGT=50.0 + 5.0 * i, AGE=20.0 + 3.0 * i, SEX=float(i % 2), CMT=2))
                rows.append(dict(ID=i, TIME=25.0, AMT=0.0, DV=3.0 + 0.1 * i, WGT=50.0 + 5.0 * i, AGE=20.0 + 3.0 * i, SEX=float(i % 2), CMT=2))
            df = pd.concat([df, pd.DataFrame(rows)]).sort_values(['ID', 'TIME'], kind='stable').reset_index(drop=True)
            df['ID'] = df['ID'].astype('int32')
            path = os.path.join(_own_scratch(), 'ivoral.csv')
            df.to_csv(path, index=False)
            m = create_basic_pk_model('ivoral', dataset_path=path)
        else:
            try:
                m = corpus.get(name)
            except Exception as e:  # noqa
                raise Reject(f'start model {name} unavailable: {type(e).__name__}')
            _clean_corpus_dir()
    _START_CACHE[name] = m
    return m


def synth_model(b: BuiltCS):
    """model around a C05 system: every symbol of the system is a parameter except the dose amounts
    (data columns); Y reads the amount of the first compartment"""
    import pandas as pd
    from pharmpy.basic import Expr
    from pharmpy.model import Assignment, ColumnInfo, DataInfo, EstimationStep, ExecutionSteps, Model, Parameter, Parameters, Statements

    cols = ['AMT', 'AMT2']
    syms = sorted(s for s in b.ref.symbols() if s not in cols)
    params = Parameters.create([Parameter.create(s, 0.5 + 0.125 * k, lower=0.0) for k, s in enumerate(syms)])
    first = b.ref.names[0]
    stats = Statements([Assignment.create('S1', Expr.symbol(syms[0]) if syms else Expr.integer(1)), b.cs, Assignment.create('Y', Expr.function(f'A_{first}', 't') / Expr.symbol('S1'))])
    df = pd.DataFrame(dict(ID=[1, 1, 1, 2, 2], TIME=[0.0, 1.0, 2.0, 0.0, 1.5], AMT=[10.0, 0.0, 0.0, 12.0, 0.0], AMT2=[0.0, 0.0, 5.0, 0.0, 0.0], DV=[0.0, 1.25, 0.5, 0.0, 2.0]))
    df['ID'] = df['ID'].astype('int32')
    di = DataInfo.create(
        [ColumnInfo.create('ID', type='id', datatype='int32', scale='nominal'), ColumnInfo.create('TIME', type='idv'), ColumnInfo.create('AMT', type='dose'), ColumnInfo.create('AMT2', type='dose'), ColumnInfo.create('DV', type='dv')]
    )
    return Model.create(
        name='synth', parameters=params, statements=stats, dataset=df, datainfo=di, dependent_variables={Expr.symbol('Y'): 1},
        execution_steps=ExecutionSteps.create([EstimationStep.create('FOCE', interaction=True)]),
    )


def _ops():
    import pandas as pd
    import pharmpy.modeling as pm
    from pharmpy.basic import Expr

    def na():
        raise ValueError('not applicable')

    def pick(xs, a):
        xs = list(xs)
        if not xs:
            na()
        return xs[a % len(xs)]

    def param(m, a, pred=lambda p: True):
        return pick([p.name for p in m.parameters if pred(p)], a)

    def pkparam(m, a):
        return pick(pm.get_pk_parameters(m), a)

    def cov(m, a):
        return pick([c.name for c in m.datainfo if c.type == 'covariate'], a)

    def assigned(m, a):
        return pick([s.symbol.name for s in m.statements if hasattr(s, 'symbol') and s.symbol.is_symbol()], a)

    def cmt(m, a):
        return pick(m.statements.ode_system.compartment_names, a)

    def set_init(m, a, b):
        p = m.parameters[param(m, a, lambda p: not p.fix)]
        v = p.init * 1.25 + 0.015625
        if not (p.lower <= v <= p.upper):
            na()
        return pm.set_initial_estimates(m, {p.name: v})

    def iie(m, a, b):
        return m.replace(initial_individual_estimates=make_iie(m, a, b, 0))

    def second_dv(m, a, b):
        y = list(m.dependent_variables.keys())[0]
        from pharmpy.model import Assignment

        new = Expr.symbol('Y2')
        if new in m.statements.free_symbols:
            na()
        dvs = dict(m.dependent_variables)
        dvs[new] = max(dvs.values()) + 1
        return m.replace(statements=m.statements + Assignment.create(new, y * 2), dependent_variables=dvs)

    return [
        # name, function, weight
        ('add_peripheral', lambda m, a, b: pm.add_peripheral_compartment(m), 4),
        ('remove_peripheral', lambda m, a, b: pm.remove_peripheral_compartment(m), 1),
        ('fo_abs', lambda m, a, b: pm.set_first_order_absorption(m), 2),
        ('zo_abs', lambda m, a, b: pm.set_zero_order_absorption(m), 2),
        ('seq_abs', lambda m, a, b: pm.set_seq_zo_fo_absorption(m), 2),
        ('inst_abs', lambda m, a, b: pm.set_instantaneous_absorption(m), 1),
        ('transits', lambda m, a, b: pm.set_transit_compartments(m, 2 + a % 3, keep_depot=bool(b % 2)), 3),
        ('add_lag', lambda m, a, b: pm.add_lag_time(m), 3),
        ('remove_lag', lambda m, a, b: pm.remove_lag_time(m), 1),
        ('add_F', lambda m, a, b: pm.add_bioavailability(m), 3),
        ('mm_elim', lambda m, a, b: pm.set_michaelis_menten_elimination(m), 1),
        ('mixed_elim', lambda m, a, b: pm.set_mixed_mm_fo_elimination(m), 1),
        ('zo_elim', lambda m, a, b: pm.set_zero_order_elimination(m), 1),
        ('fo_elim', lambda m, a, b: pm.set_first_order_elimination(m), 1),
        ('add_iiv', lambda m, a, b: pm.add_iiv(m, pkparam(m, a), ['exp', 'add', 'prop', 'log'][b % 4]), 1),
        ('remove_iiv', lambda m, a, b: pm.remove_iiv(m, pick(m.random_variables.iiv.names, a)), 1),
        ('joint', lambda m, a, b: pm.create_joint_distribution(m), 2),
        ('split', lambda m, a, b: pm.split_joint_distribution(m), 1),
        ('prop_err', lambda m, a, b: pm.set_proportional_error_model(m), 1),
        ('add_err', lambda m, a, b: pm.set_additive_error_model(m), 1),
        ('comb_err', lambda m, a, b: pm.set_combined_error_model(m), 1),
        ('cov_effect', lambda m, a, b: pm.add_covariate_effect(m, pkparam(m, a), cov(m, b), ['exp', 'lin', 'pow'][(a + b) % 3]), 1),
        ('fix', lambda m, a, b: pm.fix_parameters(m, [param(m, a)]), 1),
        ('unfix', lambda m, a, b: pm.unfix_parameters(m, [param(m, a)]), 1),
        ('set_init', set_init, 1),
        ('lower', lambda m, a, b: pm.set_lower_bounds(m, {param(m, a): m.parameters[param(m, a)].init - 1.0 - b}), 1),
        ('rename_amt', lambda m, a, b: pm.rename_symbols(m, {'AMT': 'DOSEAMT'}), 5),
        ('rename_amt_back', lambda m, a, b: pm.rename_symbols(m, {'DOSEAMT': 'AMT'}), 3),
        ('rename_param', lambda m, a, b: pm.rename_symbols(m, {param(m, a): param(m, a) + '_R'}), 2),
        ('rename_var', lambda m, a, b: pm.rename_symbols(m, {assigned(m, a): assigned(m, a) + '_R'}), 3),
        ('est_step', lambda m, a, b: pm.set_estimation_step(m, ['FO', 'FOCE', 'IMP', 'SAEM'][a % 4], interaction=bool(b % 2)), 1),
        ('add_est_step', lambda m, a, b: pm.add_estimation_step(m, ['FO', 'FOCE', 'IMP', 'SAEM'][a % 4], tool_options={'NITER': 10 + b, 'PRINT': '1'}), 1),
        ('simulation', lambda m, a, b: pm.set_simulation(m, n=1 + a, seed=1000 + b), 1),
        ('solver', lambda m, a, b: pm.set_ode_solver(m, ['LSODA', 'CVODES', 'DGEAR', 'DVERK', 'IDA', 'LSODI'][a % 6]), 1),
        ('effect_cmt', lambda m, a, b: pm.add_effect_compartment(m, ['linear', 'emax', 'sigmoid', 'step', 'loglin'][a % 5]), 2),
        ('metabolite', lambda m, a, b: pm.add_metabolite(m, presystemic=bool(a % 2)), 2),
        ('tmdd', lambda m, a, b: pm.set_tmdd(m, ['full', 'ib', 'cr', 'crib', 'qss', 'wagner', 'mmapp'][a % 7]), 2),
        ('indirect', lambda m, a, b: pm.add_indirect_effect(m, ['linear', 'emax', 'sigmoid'][a % 3], bool(b % 2)), 1),
        ('zo_input', lambda m, a, b: pm.set_zero_order_input(m, cmt(m, a), 10 + b), 2),
        ('tad', lambda m, a, b: pm.add_time_after_dose(m), 1),
        ('predictions', lambda m, a, b: pm.add_predictions(m, [PREDS[a % 3]]), 1),
        ('residuals', lambda m, a, b: pm.add_residuals(m, [RESIDS[a % 4]]), 1),
        ('derivative', lambda m, a, b: pm.add_derivative(m), 1),
        ('pop_param', lambda m, a, b: pm.add_population_parameter(m, f'NEWP{a % 3}', 0.5 + b, lower=0.0), 1),
        ('boxcox', lambda m, a, b: pm.transform_etas_boxcox(m), 1),
        ('admid', lambda m, a, b: pm.add_admid(m), 1),
        ('power_ruv', lambda m, a, b: pm.set_power_on_ruv(m), 1),
        ('iiv_ruv', lambda m, a, b: pm.set_iiv_on_ruv(m), 1),
        ('mu_ref', lambda m, a, b: pm.mu_reference_model(m), 1),
        ('generic', lambda m, a, b: pm.convert_model(m, 'generic'), 1),
        ('iie', iie, 1),
        ('value_type', lambda m, a, b: m.replace(value_type=['LIKELIHOOD', '-2LL', Expr.symbol('F_FLAG')][a % 3]), 1),
        ('second_dv', second_dv, 1),
        ('name', lambda m, a, b: m.replace(name=f'run{a}', description=f'description {b}'), 1),
    ]


_OPS = None
_OP_INDEX = None
SYNTH_OK = {'rename_amt', 'rename_amt_back', 'rename_param', 'rename_var', 'fix', 'unfix', 'set_init', 'lower', 'est_step', 'add_est_step', 'simulation', 'generic', 'pop_param', 'value_type', 'second_dv', 'name', 'zo_input', 'solver'}


def ops():
    global _OPS, _OP_INDEX
    if _OPS is None:
        _OPS = _ops()
        _OP_INDEX = []
        for k, (_, _, w) in enumerate(_OPS):
            _OP_INDEX.extend([k] * w)
    return _OPS, _OP_INDEX


N_OPSEL = 512

STEP_SPEC = st.tuples(st.integers(0, N_OPSEL - 1), st.integers(0, 7), st.integers(0, 7)).map(list)
DATAEDIT = st.tuples(st.integers(0, 2), _i, _i, st.integers(1, 5)).map(list)


def RECIPE():
    from . import c05

    start = st.sampled_from(range(len(STARTS)))
    data = st.one_of(st.just([]), st.just([]), st.lists(DATAEDIT, max_size=2))
    dose = st.one_of(st.none(), st.none(), st.none(), st.tuples(st.sampled_from([1, 2, 1, 0]), st.integers(0, 1), st.integers(0, 1), st.integers(0, 1)).map(list))
    iie = st.one_of(st.none(), st.none(), st.none(), st.none(), st.tuples(st.sampled_from(range(4)), st.sampled_from(range(4)), st.sampled_from(range(4))).map(list))
    di = st.one_of(st.none(), st.none(), st.none(), st.lists(st.tuples(st.integers(0, 11), st.sampled_from(range(len(CATS))), st.integers(0, 12), st.integers(0, 11)).map(list), min_size=1, max_size=2))
    plain = st.fixed_dictionaries(dict(start=start, steps=st.lists(STEP_SPEC, min_size=0, max_size=3), data=data, dose=dose, iie=iie, di=di))
    synth = st.fixed_dictionaries(dict(synth=st.one_of(c05.DIRECT, c05.HISTORY, c05.HISTORY), steps=st.lists(STEP_SPEC, min_size=0, max_size=2), data=st.just([])))
    # structure change followed by a renaming that relabels compartments (the history class the property names)
    par = st.integers(0, 7)
    grow = st.tuples(st.sampled_from([op_selector(n) for n in ('add_peripheral', 'transits', 'add_lag', 'add_F', 'effect_cmt', 'metabolite', 'fo_abs')]), par, par).map(list)
    ren = st.tuples(st.sampled_from([op_selector(n) for n in ('rename_amt', 'rename_amt', 'rename_var', 'rename_param', 'rename_amt_back')]), par, par).map(list)
    relabel = st.fixed_dictionaries(dict(start=st.sampled_from([0, 0, 1, 3, 4, 6, 7]), steps=st.tuples(grow, ren, st.one_of(ren, grow)).map(list), data=st.just([]), dose=dose, iie=iie, di=di))
    relabel_synth = st.fixed_dictionaries(dict(synth=st.one_of(c05.DIRECT, c05.HISTORY), steps=st.lists(ren, min_size=1, max_size=2), data=st.just([])))
    return st.sampled_from(['plain', 'plain', 'plain', 'plain', 'synth', 'synth', 'relabel', 'relabel', 'relabel_synth']).flatmap(
        lambda k: dict(plain=plain, synth=synth, relabel=relabel, relabel_synth=relabel_synth)[k]
    )


class Built:
    def __init__(self, model, start):
        self.model = model
        self.start = start
        self.applied = []
        self.skipped = []
        self.relabel = False

    def copy(self):
        b = Built(self.model, self.start)
        b.applied = list(self.applied)
        b.skipped = list(self.skipped)
        b.relabel = self.relabel
        return b

    def facts(self):
        cs = self.model.statements.ode_system
        ncomp = ndose = 0
        if cs is not None:
            try:
                comps = [cs.find_compartment(n) for n in cs.compartment_names]
                ncomp = len(comps)
                ndose = sum(1 for c in comps if c.doses)
            except Exception:  # noqa
                ncomp = len(cs)
        return dict(ncomp=ncomp, ndose=ndose, relabel=self.relabel, nontrivial=bool((ncomp >= 3 and self.relabel) or ndose >= 2))


def _relabelled(m1, m2):
    """some compartment (by name) of m1 exists in m2 as a different node object"""
    a, b = m1.statements.ode_system, m2.statements.ode_system
    if a is None or b is None:
        return False
    try:
        for n in a.compartment_names:
            ca, cb = a.find_compartment(n), b.find_compartment(n)
            if cb is not None and ca != cb:
                return True
    except Exception:  # noqa
        return False
    return False


_BUILD_CACHE = {}


def edit_dataset(model, edits):
    df = model.dataset
    if df is None or not edits:
        return model
    df = df.copy()
    for e in _list(edits)[:2]:
        kind, r, c, v = (_int(x) for x in _pad(e, 4))
        num = [col for col in df.columns if str(df[col].dtype).startswith(('float', 'int')) and col != 'ID']
        if not num or not len(df):
            continue
        col = num[c % len(num)]
        if kind % 3 == 0:
            df.loc[df.index[r % len(df)], col] = df[col].iloc[r % len(df)] + v
        elif kind % 3 == 1:
            cur = str(df[col].dtype)
            new = 'float32' if cur == 'float64' else 'float64'
            df[col] = df[col].astype(new)
        else:
            k = 1 + v % 3
            if len(df) > k:
                df = df.iloc[:-k].reset_index(drop=True)
    return model.replace(dataset=df)


def make_iie(model, n_kind, order_kind, col_kind):
    """frame of initial individual estimates: 3 / 12 / 25 / 11 individuals whose identifiers are ascending,
    descending, permuted or sparse integers; columns = the first etas, all etas reversed, or ETA_1..ETA_11"""
    import pandas as pd

    n = [3, 12, 25, 11][n_kind % 4]
    ids = list(range(1, n + 1))
    k = order_kind % 4
    if k == 1:
        ids = ids[::-1]
    elif k == 2:
        ids = [1 + (i * 7) % n for i in range(n)] if n % 7 else [1 + (i * 5) % n for i in range(n)]
    elif k == 3:
        ids = [3 * i + (100 if i % 2 else 2) for i in range(n)]
    etas = list(model.random_variables.etas.names)
    c = col_kind % 4
    if c == 0:
        cols = etas[: 1 + n_kind % 2]
    elif c == 1:
        cols = etas[::-1]
    elif c == 2:
        cols = [f'ETA_{i}' for i in range(1, 12)]
    else:
        cols = etas
    if not cols:
        raise ValueError('no etas')
    return pd.DataFrame({col: [0.01 * (i + 1) * (j + 1) - 0.05 * j for i in range(n)] for j, col in enumerate(cols)}, index=pd.Index(ids, name='ID'))


def annotate_columns(model, edits):
    """ColumnInfo.replace(categories / descriptor / unit) on columns of the model's datainfo: [[column, categories, descriptor, unit], ...]"""
    from pharmpy.model import ColumnInfo

    di = model.datainfo
    cols = list(di)
    if not cols:
        raise ValueError('no columns')
    for e in _list(edits)[:3]:
        ci, cats, desc, unit = (_int(v) for v in _pad(e, 4))
        i = ci % len(cols)
        col = cols[i]
        kw = dict(categories=CATS[cats % len(CATS)])
        if desc % 3 == 1:
            kw['descriptor'] = ColumnInfo._all_descriptors[desc % len(ColumnInfo._all_descriptors)]
        if unit % 3 == 1:
            kw['unit'] = UNITS[unit % len(UNITS)]
        cols[i] = col.replace(**kw)
    return model.replace(datainfo=di.replace(columns=cols))


def add_dose_step(model, dose):
    """CompartmentalSystemBuilder.add_dose on a dosing compartment of the model: [kind, admid, which, amount]
    (kind 0 Bolus, 1 Infusion by rate, 2 Infusion by duration; the new dose is stored after the existing ones)"""
    from pharmpy.model import Bolus, CompartmentalSystem, CompartmentalSystemBuilder, Infusion, Statements

    kind, admid, which, amt = (_int(v) for v in _pad(dose, 4))
    cs = model.statements.ode_system
    if cs is None:
        raise ValueError('no ODE system')
    comps = list(cs.dosing_compartments)
    comp = comps[which % len(comps)]
    amount = comp.doses[0].amount if amt % 2 == 0 else 'AMT'
    if kind % 3 == 0:
        d = Bolus.create(amount, admid=2 + admid % 2)
    elif kind % 3 == 1:
        d = Infusion.create(amount, admid=2 + admid % 2, rate='RATE' if 'RATE' in model.datainfo.names else 'R1')
    else:
        d = Infusion.create(amount, admid=2 + admid % 2, duration='D1')
    cb = CompartmentalSystemBuilder(cs)
    cb.add_dose(comp, d)
    new = CompartmentalSystem(cb)
    return model.replace(statements=Statements([new if isinstance(s, CompartmentalSystem) else s for s in model.statements]))


def build_model(recipe) -> Built:
    """total interpretation of a recipe (transformations that raise are skipped)"""
    recipe = _dict(recipe)
    allops, index = ops()
    synth = recipe.get('synth')
    steps = [[_int(x) for x in _pad(s, 3)] for s in _list(recipe.get('steps'))[:3]]
    if isinstance(synth, dict):
        key0 = 'synth:' + json.dumps(synth, sort_keys=True, default=str)
    else:
        key0 = 'start:' + STARTS[_int(recipe.get('start')) % len(STARTS)]
    cur = _BUILD_CACHE.get(key0)
    if cur is None:
        if isinstance(synth, dict):
            b = build_cs(synth)
            try:
                with quiet_ctx():
                    cur = Built(synth_model(b), 'synth')
            except Exception as e:  # noqa
                raise Reject(f'synthetic model: {type(e).__name__}: {str(e)[:80]}')
            cur.relabel = b.relabel
            cur.applied = ['c05:' + '/'.join(x.split('(')[0] for x in b.log)] if b.log else ['c05:direct']
        else:
            cur = Built(start_model(key0[6:]), key0[6:])
        _cache_put(key0, cur)
    key = key0
    for k, a, b_ in steps:
        name, fn, _ = allops[index[(k * 197 + 13) % len(index)]]
        if cur.start == 'synth' and name not in SYNTH_OK:
            continue
        key = key + f'|{name},{a},{b_}'
        nxt = _BUILD_CACHE.get(key)
        if nxt is None:
            nxt = cur.copy()
            try:
                with quiet_ctx():
                    m2 = fn(cur.model, a, b_)
                    _ = m2.statements  # noqa
                nxt.model = m2
                nxt.applied.append(name)
                if _relabelled(cur.model, m2):
                    nxt.relabel = True
            except RecursionError:
                nxt.skipped.append(name)
            except Exception:  # noqa
                nxt.skipped.append(name)
            _cache_put(key, nxt)
        cur = nxt
    dose = recipe.get('dose')
    if isinstance(dose, list) and dose:
        cur2 = cur.copy()
        try:
            with quiet_ctx():
                cur2.model = add_dose_step(cur.model, dose)
            cur2.applied.append('add_dose')
            cur2.relabel = True
        except Exception:  # noqa
            cur2.skipped.append('add_dose')
        cur = cur2
    for field, label, fn in (
        ('iie', 'iie', lambda m, v: m.replace(initial_individual_estimates=make_iie(m, *(_int(k) for k in _pad(v, 3))))),
        ('di', 'annotate_columns', annotate_columns),
    ):
        val = recipe.get(field)
        if isinstance(val, list) and val:
            cur2 = cur.copy()
            try:
                with quiet_ctx():
                    cur2.model = fn(cur.model, val)
                cur2.applied.append(label)
            except Exception:  # noqa
                cur2.skipped.append(label)
            cur = cur2
    edits = _list(recipe.get('data'))
    if edits:
        cur2 = cur.copy()
        try:
            with quiet_ctx():
                cur2.model = edit_dataset(cur.model, edits)
            cur2.applied.append('data-edit')
        except Exception:  # noqa
            cur2.skipped.append('data-edit')
        cur = cur2
    return cur


def _cache_put(key, val):
    if len(_BUILD_CACHE) > 600:
        for k in list(_BUILD_CACHE)[:200]:
            del _BUILD_CACHE[k]
    _BUILD_CACHE[key] = val


# ------------------------------------------------------------------------------------------
# round-trip engine


def _eq(a, b, label):
    try:
        return bool(a == b)
    except Exception as e:  # noqa
        raise Violation(f'eq-error:{label}:{type(e).__name__}', detail=str(e)[:300])


def _short(x, n=300):
    """bounded text for reports; pharmpy objects are shown through to_dict() (the repr of a
    CompartmentalSystem draws the graph and is not meant for arbitrary systems)"""
    if isinstance(x, (dict, list, tuple, str, int, float, bool)) or x is None:
        s = repr(x)
    elif hasattr(x, 'serialize'):
        try:
            s = f'{type(x).__name__}<{x.serialize()}>'
        except Exception:  # noqa
            s = f'<{type(x).__name__}>'
    else:
        try:
            s = f'{type(x).__name__}{x.to_dict()!r}'
        except Exception:  # noqa
            s = f'<{type(x).__name__}>'
    return s if len(s) <= n else s[:n] + '...'


def _stage(v, stage, differing=None):
    v.stage = stage
    v.differing = differing
    return v


def sympy_equal(a, b, depth=0):
    """a and b are equal when every expression is compared through its sympy form (the form used for
    serialisation) and everything else structurally, in order.  Used to tell the symengine-form finding
    (only the internal form of an expression differs) from a real loss of content."""
    import pandas as pd
    from collections.abc import Mapping

    from pharmpy.basic import Expr, Matrix
    from pharmpy.model import CompartmentalSystem, Compartment, Model

    if depth > 12:
        return a == b
    if isinstance(a, (Expr, Matrix)):
        return type(a) is type(b) and a.serialize() == b.serialize()
    if isinstance(a, Model):
        if not isinstance(b, Model):
            return False
        for k in MODEL_ATTRS:
            if not sympy_equal(getattr(a, k), getattr(b, k), depth + 1):
                return False
        return sympy_equal(a.initial_individual_estimates, b.initial_individual_estimates, depth + 1)
    if isinstance(a, CompartmentalSystem):
        if not isinstance(b, CompartmentalSystem) or not sympy_equal(a._t, b._t, depth + 1):
            return False

        def parts(cs):
            comps = {c.name: c for c in cs._g.nodes if isinstance(c, Compartment)}
            nm = lambda c: c.name if isinstance(c, Compartment) else None  # noqa: E731
            edges = {(nm(u), nm(v)): r for u, v, r in cs._g.edges.data('rate')}
            return comps, edges

        (ca, ea), (cb, eb) = parts(a), parts(b)
        if len(ca) != len(a) or len(cb) != len(b) or set(ca) != set(cb) or set(ea) != set(eb):
            return False
        return all(sympy_equal(ca[k], cb[k], depth + 1) for k in ca) and all(sympy_equal(ea[k], eb[k], depth + 1) for k in ea)
    if isinstance(a, pd.DataFrame):
        return isinstance(b, pd.DataFrame) and a.equals(b)
    if isinstance(a, (tuple, list)):
        return isinstance(b, (tuple, list)) and len(a) == len(b) and all(sympy_equal(x, y, depth + 1) for x, y in zip(a, b))
    if isinstance(a, Mapping):
        if not isinstance(b, Mapping) or len(a) != len(b):
            return False
        key = lambda k: k.serialize() if isinstance(k, Expr) else repr(k)  # noqa: E731
        da, db = {key(k): v for k, v in a.items()}, {key(k): v for k, v in b.items()}
        return set(da) == set(db) and all(sympy_equal(da[k], db[k], depth + 1) for k in da)
    if type(a).__module__.startswith('pharmpy.') and hasattr(a, '__dict__') and not isinstance(a, type):
        if type(a) is not type(b):
            return False
        va = {k: v for k, v in vars(a).items() if k != '_hash'}
        vb = {k: v for k, v in vars(b).items() if k != '_hash'}
        return set(va) == set(vb) and all(sympy_equal(va[k], vb[k], depth + 1) for k in va)
    try:
        return bool(a == b)
    except Exception:  # noqa
        return False


def _same_dict(b, x):
    """b != x, but they differ only in the symengine form of expressions"""
    try:
        return sympy_equal(b, x)
    except Exception:  # noqa
        return False


def rt_object(x, cls, label, out, diff=None):
    """all round-trip clauses for one object; appends at most one Violation per stage to out"""
    n0 = len(out)
    try:
        d = x.to_dict()
    except Exception as e:  # noqa
        out.append(Violation(f'to_dict-error:{label}:{type(e).__name__}', detail=f'{str(e)[:200]} @ {innermost_pharmpy_frame(e)}; {_short(x)}'))
        return
    if not isinstance(d, dict):
        out.append(Violation(f'to_dict-not-a-dict:{label}', observed=type(d).__name__))
        return
    # in memory
    try:
        b = cls.from_dict(d)
    except Exception as e:  # noqa
        out.append(_stage(Violation(f'dict-from_dict-error:{label}:{type(e).__name__}', detail=f'{str(e)[:200]} @ {innermost_pharmpy_frame(e)}; {_short(d)}'), 'dict'))
        b = None
    if b is not None and not _eq(b, x, label):
        differing = diff(b, x) if diff else None
        where = f' differing: {differing}' if diff else ''
        same = _same_dict(b, x)
        out.append(
            _stage(
                Violation(
                    f'same-dict-not-equal:{label}' if same else f'dict-not-equal:{label}', observed=_short(b), expected=_short(x),
                    detail=('from_dict(to_dict(x)) != x although both have the same to_dict() (every expression is equal in its sympy form, they differ only in the symengine form);' if same else 'from_dict(to_dict(x)) != x;') + f'{where} dict={_short(d, 500)}',
                ),
                'dict', differing,
            )
        )
    # through json
    try:
        text = json.dumps(d)
    except (TypeError, ValueError) as e:
        out.append(Violation(f'json-not-serialisable:{label}', detail=f'json.dumps(to_dict(x)): {str(e)[:120]}; at {non_json(d)}; x={_short(x)}'))
        return
    d2 = json.loads(text)
    changed = first_diff(jnorm(d), d2)
    try:
        b2 = cls.from_dict(d2)
    except Exception as e:  # noqa
        out.append(Violation(f'json-from_dict-error:{label}:{type(e).__name__}', detail=f'{str(e)[:200]} @ {innermost_pharmpy_frame(e)}; {_short(d2)}'))
        return
    if not _eq(b2, x, label):
        needs = False
        if changed is None:
            try:
                needs = _eq(cls.from_dict(retuple(d2)), x, label)
            except Exception:  # noqa
                needs = False
        differing = diff(b2, x) if diff else None
        where = f' differing: {differing};' if diff else ''
        extra = f' json changed the dict at {changed};' if changed else ''
        if len(out) == n0 or needs:
            out.append(
                _stage(
                    Violation(
                        f'json-needs-tuples:{label}' if needs else f'json-not-equal:{label}', observed=_short(b2), expected=_short(x),
                        detail=('from_dict only gives an equal object when sequences are tuples (JSON has lists);' if needs else 'from_dict(json.loads(json.dumps(to_dict(x)))) != x;') + where + extra + f' dict={_short(d2, 400)}',
                    ),
                    'json', differing,
                )
            )
        return
    if changed is not None:
        out.append(Violation(f'json-dict-changed:{label}', detail=f'json.loads(json.dumps(d)) differs from d at {changed}'))
        return
    try:
        d3 = jnorm(b2.to_dict())
    except Exception as e:  # noqa
        out.append(Violation(f'json-redict-error:{label}:{type(e).__name__}', detail=str(e)[:200]))
        return
    fp = first_diff(d2, d3, ordered=True)
    if fp is not None and len(out) == n0:
        out.append(Violation(f'json-redict-differs:{label}', detail=f'to_dict(from_dict(json form)) differs from the json form at {fp}'))


MODEL_ATTRS = ('parameters', 'random_variables', 'statements', 'dependent_variables', 'observation_transformation', 'execution_steps', 'datainfo', 'value_type')


def model_diff(a, b):
    out = []
    for k in MODEL_ATTRS:
        try:
            if getattr(a, k) != getattr(b, k):
                out.append(k)
        except Exception as e:  # noqa
            out.append(f'{k}({type(e).__name__})')
    ia, ib = a.initial_individual_estimates, b.initial_individual_estimates
    if (ia is None) != (ib is None) or (ia is not None and not ia.equals(ib)):
        out.append('initial_individual_estimates')
    return out


_RT_MEMO = {}


def rt_tree(x, out):
    """round trip of x preceded by the round trips of its members; a container only reports stages
    (clause prefix) that none of its members reported"""
    from pharmpy.basic import Expr, Matrix
    from pharmpy.model import (
        Assignment, Bolus, ColumnInfo, Compartment, CompartmentalSystem, DataInfo, EstimationStep, ExecutionSteps, Infusion, JointNormalDistribution,
        Model, NormalDistribution, Parameter, Parameters, RandomVariables, SimulationStep, Statements,
    )
    from pharmpy.model.random_variables import VariabilityHierarchy

    members = []
    diff = None
    if isinstance(x, Model):
        cls, label = Model, 'Model'
        members = [x.parameters, x.random_variables, x.statements, x.execution_steps, x.datainfo]
        diff = model_diff
    elif isinstance(x, Parameters):
        cls, label, members = Parameters, 'Parameters', list(x)
    elif isinstance(x, Parameter):
        cls, label = Parameter, 'Parameter'
    elif isinstance(x, RandomVariables):
        cls, label = RandomVariables, 'RandomVariables'
        members = list(x) + [x._eta_levels, x._epsilon_levels]
    elif isinstance(x, VariabilityHierarchy):
        cls, label = VariabilityHierarchy, 'VariabilityHierarchy'
    elif isinstance(x, NormalDistribution):
        cls, label = NormalDistribution, 'NormalDistribution'
    elif isinstance(x, JointNormalDistribution):
        cls, label = JointNormalDistribution, 'JointNormalDistribution'
    elif isinstance(x, Statements):
        cls, label, members = Statements, 'Statements', list(x)
    elif isinstance(x, Assignment):
        cls, label = Assignment, 'Assignment'
    elif isinstance(x, CompartmentalSystem):
        cls, label = CompartmentalSystem, 'CompartmentalSystem'
        members = [c for c in x._g.nodes if isinstance(c, Compartment)]
    elif isinstance(x, Compartment):
        cls, label, members = Compartment, 'Compartment', list(x._doses)
    elif isinstance(x, Bolus):
        cls, label = Bolus, 'Bolus'
    elif isinstance(x, Infusion):
        cls, label = Infusion, 'Infusion'
    elif isinstance(x, ExecutionSteps):
        cls, label, members = ExecutionSteps, 'ExecutionSteps', list(x)
    elif isinstance(x, EstimationStep):
        cls, label = EstimationStep, 'EstimationStep'
    elif isinstance(x, SimulationStep):
        cls, label = SimulationStep, 'SimulationStep'
    elif isinstance(x, DataInfo):
        cls, label, members = DataInfo, 'DataInfo', list(x)
    elif isinstance(x, ColumnInfo):
        cls, label = ColumnInfo, 'ColumnInfo'
    elif isinstance(x, (Expr, Matrix)):
        cls = type(x)
        label = cls.__name__
        try:
            s = x.serialize()
            if not isinstance(s, str):
                out.append(Violation(f'serialize-not-str:{label}', observed=type(s).__name__))
                return
            b = cls.deserialize(json.loads(json.dumps(s)))
        except Exception as e:  # noqa
            out.append(Violation(f'serialize-error:{label}:{type(e).__name__}', detail=f'{str(e)[:200]} @ {innermost_pharmpy_frame(e)}; {_short(x)}'))
            return
        if not _eq(b, x, label):
            same = b.serialize() == s
            out.append(
                _stage(
                    Violation(
                        f'same-dict-not-equal:{label}' if same else f'serialize-not-equal:{label}', observed=_short(b), expected=_short(x),
                        detail=('deserialize(serialize(x)) != x although both serialize to the same text (they differ only in their symengine form): ' if same else '') + s[:500],
                    ),
                    'dict',
                )
            )
        elif b.serialize() != s:
            out.append(Violation(f'serialize-not-fixed-point:{label}', observed=b.serialize()[:300], expected=s[:300]))
        return
    else:
        raise HarnessError(f'rt_tree: unsupported {type(x).__name__}')
    memo_key = None
    try:
        memo_key = (label, repr(x.to_dict()), x)
        hit = _RT_MEMO.get(memo_key)
    except Exception:  # noqa
        hit = None
        memo_key = None
    if hit is not None:
        for c, o, e, d, stg in hit:
            v = Violation(c, observed=o, expected=e, detail=d)
            if stg:
                v.stage = stg
            out.append(v)
        return
    n00 = len(out)
    n0 = len(out)
    seen = set()
    for m in members:
        k = id(m)
        if k in seen:
            continue
        seen.add(k)
        rt_tree(m, out)
    stages = {getattr(v, 'stage', v.clause.split(':')[0]) for v in out[n0:]}
    own = []
    rt_object(x, cls, label, own, diff)
    for v in own:
        if getattr(v, 'stage', v.clause.split(':')[0]) not in stages:
            out.append(v)
        elif label == 'Model' and getattr(v, 'differing', None):
            # differences in attributes that are not members checked above are the model's own
            extra = [a for a in v.differing if a.split('(')[0] not in ('parameters', 'random_variables', 'statements', 'execution_steps', 'datainfo')]
            if extra:
                v.clause = v.clause + '[' + ','.join(extra) + ']'
                out.append(v)
    if memo_key is not None:
        if len(_RT_MEMO) > 4000:
            _RT_MEMO.clear()
        _RT_MEMO[memo_key] = [(v.clause, v.observed, v.expected, v.detail, getattr(v, 'stage', None)) for v in out[n00:]]


# clauses of the widespread sequence-type finding are reported last so that they do not mask others in the same case
LOW_PRIORITY = ('json-needs-tuples:',)


def raise_first(out):
    if not out:
        return
    seen = set()
    uniq = []
    for v in out:
        if v.clause not in seen:
            seen.add(v.clause)
            uniq.append(v)
    uniq.sort(key=lambda v: v.clause.startswith(LOW_PRIORITY))
    v = uniq[0]
    if len(uniq) > 1:
        v.detail = (v.detail or '') + f' [also in this case: {[u.clause for u in uniq[1:6]]}]'
    raise v


# ------------------------------------------------------------------------------------------
# sub-check components


def MODEL_SPEC():
    return st.fixed_dictionaries(dict(kind=st.just('model'), recipe=RECIPE()))


def COMPONENTS():
    table = dict(
        parameters=PARAMS_SPEC, rvs=RVS_SPEC(), statements=PROG_SPEC(), cs=CS_SPEC(), datainfo=DATAINFO_SPEC, steps=STEPS_SPEC, expr=EXPR_SPEC, matrix=MATRIX_SPEC, model=MODEL_SPEC(), compartment=COMPARTMENT_SPEC,
    )
    weights = dict(parameters=2, rvs=3, statements=3, cs=5, datainfo=3, steps=3, expr=4, matrix=1, model=2, compartment=2)
    kinds = [k for k, w in weights.items() for _ in range(w)]
    return st.sampled_from(kinds).flatmap(lambda k: table[k])


def build_component(spec):
    """-> (object, classes, nontrivial, render) for a components spec (also used by the worker processes)"""
    from pharmpy.basic import Expr
    from pharmpy.model import Assignment, Statements

    spec = _dict(spec)
    kind = spec.get('kind')
    nontrivial = False
    classes = [f'kind={kind}']
    render = None
    if kind == 'parameters':
        x = build_parameters(spec)
        classes.append(f'n={len(x)}')
    elif kind == 'rvs':
        x = build_rvs(spec)
        classes.append('joint' if any(len(d) > 1 for d in x) else 'no-joint')
    elif kind == 'statements':
        x, ncomp = build_prog_statements(spec)
        classes.append(f'ode={ncomp}')
    elif kind == 'cs':
        b = build_cs(spec.get('cs'))
        n = len(b.ref.comps)
        nd = len(b.ref.dosed())
        nontrivial = (n >= 3 and b.relabel) or nd >= 2
        classes += [f'ncomp={min(n, 6)}', f'ndose={nd}', 'relabelled' if b.relabel else 'not-relabelled']
        x = Statements([Assignment.create('K', Expr.symbol('T1')), b.cs, Assignment.create('Y', Expr.symbol('K') * 2)])
        render = dict(system=b.ref.render(), ops=b.log)
    elif kind == 'compartment':
        x, comp = build_compartment(spec)
        classes.append(f'doses={len(comp._doses)}')
        nontrivial = len(comp._doses) >= 2 and bolus_before_infusion(comp)
    elif kind == 'datainfo':
        x = build_datainfo(spec)
        classes.append('categories' if any(c.categories is not None for c in x) else 'no-categories')
        if any(isinstance(c.categories, tuple) and any(isinstance(v, str) for v in c.categories) for c in x):
            classes.append('string-categories')
    elif kind == 'steps':
        x = build_steps(spec)
        classes.append(f'n={len(x)}')
    elif kind == 'expr':
        x = build_expr(spec)
    elif kind == 'matrix':
        x = build_matrix(spec)
    elif kind == 'model':
        b = build_model(spec.get('recipe'))
        x = b.model
        f = b.facts()
        nontrivial = f['nontrivial']
        classes += [f'start={b.start}', f"ncomp={min(f['ncomp'], 6)}", f"ndose={f['ndose']}"] + [f'op:{a.split(":")[0]}' for a in b.applied]
        ie = x.initial_individual_estimates
        if ie is not None:
            classes.append(iie_class(ie))
        render = dict(start=b.start, applied=b.applied, skipped=b.skipped)
    else:
        raise Reject('unknown kind')
    if bolus_before_infusion(x):
        classes.append('bolus-before-infusion')
    return x, classes, nontrivial, render


def iie_class(ie):
    rows = [str(i) for i in ie.index]
    cols = [str(c) for c in ie.columns]
    return 'iie:labels-not-string-sorted' if rows != sorted(rows) or cols != sorted(cols) else 'iie:labels-sorted'


def run_components(spec):
    out = []
    with quiet_ctx():
        x, classes, nontrivial, render = build_component(spec)
        rt_tree(x, out)
    raise_first(out)
    return CaseInfo(nontrivial=nontrivial, classes=tuple(classes), render=render if render is not None else _short(x, 400))


# ------------------------------------------------------------------------------------------
# sub-check generic_code


def GENERIC_SPEC():
    return st.fixed_dictionaries(dict(recipe=RECIPE()))


def run_generic_code(spec):
    from pharmpy.modeling import convert_model, read_model_from_string

    b = build_model(_dict(spec).get('recipe'))
    f = b.facts()
    with quiet_ctx():
        g = guard(convert_model, b.model, 'generic', clause='convert_model')
        try:
            code = g.code
        except Exception as e:  # noqa
            out = []
            rt_tree(g, out)
            raise_first([v for v in out if v.clause.startswith('json-not-serialisable')])
            raise Violation(f'generic-code-error:{type(e).__name__}', detail=f'{str(e)[:200]} @ {innermost_pharmpy_frame(e)}')
        if not isinstance(code, str):
            raise Violation('generic-code-not-str', observed=type(code).__name__)
        g2 = guard(read_model_from_string, code, allowed=(), clause='read_model_from_string')
        if not _eq(g2, g, 'Model'):
            out = []
            rt_tree(g, out)
            raise_first(out)
            raise Violation('generic-not-equal', detail=f'read_model_from_string(g.code) != g; differing: {model_diff(g2, g)}; applied={b.applied}')
        code2 = guard(lambda: g2.code, allowed=(), clause='generic-code-error')
        if code2 != code:
            try:
                where = first_diff(json.loads(code), json.loads(code2), ordered=True)
            except Exception:  # noqa
                where = '?'
            raise Violation('generic-code-not-fixed-point', detail=f'code of the re-read model differs at {where}; applied={b.applied}')
    classes = [f'start={b.start}', f"ncomp={min(f['ncomp'], 6)}", f"ndose={f['ndose']}"] + [f'op:{a.split(":")[0]}' for a in b.applied]
    if bolus_before_infusion(b.model):
        classes.append('bolus-before-infusion')
    if b.model.initial_individual_estimates is not None:
        classes.append(iie_class(b.model.initial_individual_estimates))
    return CaseInfo(nontrivial=f['nontrivial'], classes=tuple(classes), render=dict(start=b.start, applied=b.applied, skipped=b.skipped), evals=2)


# ------------------------------------------------------------------------------------------
# sub-check hash_process: fresh interpreters with different PYTHONHASHSEED

BATCH_TIMEOUT = 900
_PROC_CACHE = {}
_BATCH_NO = [0]
_VIOLATION_SEEN = [0]
SHRINK_LAUNCHES = 10


def PROCESS_COMPONENTS():
    """cheap component specs whose to_dict() text is compared between the interpreters"""
    table = dict(parameters=PARAMS_SPEC, rvs=RVS_SPEC(), statements=PROG_SPEC(), cs=CS_SPEC(), datainfo=DATAINFO_SPEC, steps=STEPS_SPEC, compartment=COMPARTMENT_SPEC)
    kinds = ['datainfo'] * 5 + ['steps'] * 3 + ['rvs'] * 2 + ['cs'] * 3 + ['parameters', 'statements', 'compartment']
    return st.sampled_from(kinds).flatmap(lambda k: table[k])


def PROCESS_SPEC():
    return st.fixed_dictionaries(dict(recipes=st.lists(RECIPE(), min_size=8, max_size=12), comps=st.lists(PROCESS_COMPONENTS(), min_size=20, max_size=30), seed=st.integers(3, 4294967295)))


def component_record(spec):
    """to_dict() of a generated component as JSON text digest (+ the text itself when short)"""
    try:
        with quiet_ctx():
            x, classes, _, _ = build_component(spec)
    except Reject as r:
        return dict(reject=r.why[:200])
    except (Violation, HarnessError) as v:
        return dict(reject=f'builder: {getattr(v, "clause", v)}'[:200])
    try:
        d = x.to_dict()
        text = json.dumps(jnorm(d), default=repr)
    except Exception as e:  # noqa
        return dict(error=f'{type(e).__name__}: {str(e)[:160]} @ {innermost_pharmpy_frame(e)}')
    rec = dict(kind=spec.get('kind'), classes=classes, raw=hashlib.sha256(text.encode()).hexdigest()[:16], can=digest(d, True))
    if len(text) <= 6000:
        rec['text'] = text
    return rec


def worker_record(recipe):
    from pharmpy.workflows.hashing import ModelHash

    if isinstance(recipe, dict) and 'kind' in recipe:
        return component_record(recipe)
    rec = {}
    try:
        b = build_model(recipe)
    except Reject as r:
        return dict(reject=r.why[:200])
    except (Violation, HarnessError) as v:
        return dict(reject=f'builder: {getattr(v, "clause", v)}'[:200])
    try:
        with quiet_ctx():
            rec.update(b.facts())
            rec['applied'] = b.applied
            rec['start'] = b.start
            fp, raw, can = model_fingerprint(b.model)
            rec.update(fp=fp, raw=raw, can=can, data=dataset_fingerprint(b.model.dataset))
            rec['hash'] = str(ModelHash(b.model))
    except Exception as e:  # noqa
        rec['error'] = f'{type(e).__name__}: {str(e)[:160]} @ {innermost_pharmpy_frame(e)}'
    return rec


def worker_main(path):
    with open(path) as f:
        batch = json.load(f)
    real = sys.stdout
    sys.stdout = sys.stderr  # anything printed by libraries must not disturb the protocol
    try:
        for i, recipe in enumerate(batch['recipes']):
            try:
                rec = worker_record(recipe)
            except BaseException as e:  # noqa
                rec = dict(error=f'worker: {type(e).__name__}: {str(e)[:160]}')
            rec['i'] = i
            real.write(MARK + json.dumps(rec, default=str) + '\n')
            real.flush()
        real.write(MARK + json.dumps(dict(done=len(batch['recipes']))) + '\n')
        real.flush()
    finally:
        sys.stdout = real
        d = os.path.join(SCRATCH, f'corpus_{os.getpid()}')
        shutil.rmtree(d, True)
    return 0


def run_batch(recipes, seeds):
    """-> {seed: [record per recipe]}; results are cached per (recipe, seed) inside this process
    (the runner's shrinker re-evaluates sub-lists of a failing batch)"""
    keys = [json.dumps(r, sort_keys=True, default=str) for r in recipes]
    res = {s: [None] * len(recipes) for s in seeds}
    todo = {}
    for s in seeds:
        for i, k in enumerate(keys):
            hit = _PROC_CACHE.get((k, s))
            if hit is not None:
                res[s][i] = hit
            else:
                todo.setdefault(s, []).append(i)
    if not todo:
        return res
    if _VIOLATION_SEEN[0]:
        # a violation was already found in this process: the runner is shrinking.  Sub-lists of the failing
        # batch are answered from the cache; only a bounded number of *new* recipes is still evaluated.
        _VIOLATION_SEEN[0] += 1
        if _VIOLATION_SEEN[0] > SHRINK_LAUNCHES + 1:
            raise Reject('hash_process: sub-process budget for shrinking used up')
    _BATCH_NO[0] += 1
    d = os.path.join(SCRATCH, f'c12_batch_{os.getpid()}_{_BATCH_NO[0]}')
    os.makedirs(d, exist_ok=True)
    procs = []
    try:
        for s, idx in todo.items():
            path = os.path.join(d, f'batch_{s}.json')
            with open(path, 'w') as f:
                json.dump(dict(recipes=[recipes[i] for i in idx]), f)
            env = dict(os.environ)
            env['PYTHONHASHSEED'] = str(s)
            pp = [x for x in env.get('PYTHONPATH', '').split(os.pathsep) if x]
            env['PYTHONPATH'] = os.pathsep.join(pp + ([] if VERIF_DIR in pp else [VERIF_DIR]))
            p = subprocess.Popen([sys.executable, '-m', 'pv.checks.c12', '--worker', path], cwd=VERIF_DIR, env=env, stdout=subprocess.PIPE, stderr=subprocess.PIPE, text=True)
            procs.append((s, idx, p))
        for s, idx, p in procs:
            try:
                so, se = p.communicate(timeout=BATCH_TIMEOUT)
            except subprocess.TimeoutExpired:
                for _, _, q in procs:
                    q.kill()
                raise HarnessError(f'hash_process: worker with PYTHONHASHSEED={s} did not finish within {BATCH_TIMEOUT} s (inconclusive)')
            recs = []
            done = None
            for line in so.splitlines():
                if line.startswith(MARK):
                    try:
                        r = json.loads(line[len(MARK):])
                    except ValueError:
                        raise HarnessError(f'hash_process: unparsable worker line {line[:200]!r}')
                    if 'done' in r:
                        done = r['done']
                    else:
                        recs.append(r)
            if p.returncode != 0 or done != len(idx) or [r.get('i') for r in recs] != list(range(len(idx))):
                raise HarnessError(f'hash_process: worker PYTHONHASHSEED={s} failed (exit {p.returncode}, {len(recs)}/{len(idx)} records)\n{se[-1500:]}')
            for i, r in zip(idx, recs):
                res[s][i] = r
                if len(_PROC_CACHE) > 20000:
                    _PROC_CACHE.clear()
                _PROC_CACHE[(keys[i], s)] = r
    finally:
        for _, _, q in procs:
            if q.poll() is None:
                q.kill()
        shutil.rmtree(d, True)
    return res


def _text_diff(a, b):
    n = next((i for i, (x, y) in enumerate(zip(a, b)) if x != y), min(len(a), len(b)))
    return f'...{a[max(0, n - 60):n + 60]}...  vs  ...{b[max(0, n - 60):n + 60]}...'


def run_hash_process(spec):
    spec = _dict(spec)
    recipes = [r for r in _list(spec.get('recipes'))[:14] if isinstance(r, dict) and 'kind' not in r]
    comps = [c for c in _list(spec.get('comps'))[:30] if isinstance(c, dict) and c.get('kind') in ('parameters', 'rvs', 'statements', 'cs', 'datainfo', 'steps', 'compartment')]
    if not recipes and not comps:
        raise Reject('no recipes')
    s4 = 3 + abs(_int(spec.get('seed'))) % 4294967293
    seeds = [0, 1, 2, s4]
    items = recipes + comps
    res = run_batch(items, seeds)
    classes = []
    nt = 0
    evals = 0
    render = []

    def outcome_differs(recs):
        kinds = {('reject', r.get('reject')) if 'reject' in r else ('error', r.get('error')) if 'error' in r else ('ok', None) for r in recs}
        return len(kinds) > 1

    for i, recipe in enumerate(recipes):
        recs = [res[s][i] for s in seeds]
        if any('reject' in r or 'error' in r for r in recs):
            if outcome_differs(recs):
                classes.append('seed-dependent-build-outcome')
            elif 'error' in recs[0]:
                classes.append('hash-or-to_dict-error')
            else:
                classes.append('recipe-rejected')
            continue
        evals += len(seeds)
        fps = {r['fp'] for r in recs}
        hashes = {r['hash'] for r in recs}
        r0 = recs[0]
        if len(fps) > 1:
            # the content itself (order-insensitive form of to_dict + dataset) depends on the interpreter
            comps_ = sorted(k for k in r0['can'] if len({r['can'][k] for r in recs}) > 1) or (['dataset'] if len({r['data'] for r in recs}) > 1 else ['?'])
            _VIOLATION_SEEN[0] = max(1, _VIOLATION_SEEN[0])
            raise Violation(
                f'process-content-differs[{",".join(comps_)}]', observed={str(s): r['hash'] for s, r in zip(seeds, recs)}, expected='one model, one key',
                detail=f'the same construction steps give a different model (and key) in interpreters with PYTHONHASHSEED {seeds}: the order-insensitive form of to_dict() differs in {comps_}; '
                f'start={r0.get("start")} applied={r0.get("applied")}',
            )
        if len(hashes) > 1:
            comps_ = sorted(k for k in r0['raw'] if len({r['raw'][k] for r in recs}) > 1)
            _VIOLATION_SEEN[0] = max(1, _VIOLATION_SEEN[0])
            raise Violation(
                f'process-key-differs[{",".join(comps_) or "hashing"}]', observed={str(s): r['hash'] for s, r in zip(seeds, recs)}, expected='one key',
                detail=f'same recipe, same order-insensitive content fingerprint {r0["fp"]} in all interpreters, but ModelHash differs between PYTHONHASHSEED {seeds}; '
                f'start={r0.get("start")} applied={r0.get("applied")}; to_dict components that differ: {comps_}',
            )
        if r0.get('nontrivial'):
            nt += 1
            if len(render) < 2:
                render.append(dict(start=r0.get('start'), applied=r0.get('applied'), ncomp=r0.get('ncomp'), ndose=r0.get('ndose'), key=r0['hash']))
        classes.append(f"start={r0.get('start')}")
        classes.append(f"ncomp={min(r0.get('ncomp', 0), 6)}")
        for a in r0.get('applied', []):
            if a in ('annotate_columns', 'iie', 'add_dose'):
                classes.append(f'op:{a}')
        if r0.get('ndose', 0) >= 2:
            classes.append('two-dosing-compartments')
        if r0.get('relabel'):
            classes.append('relabelled')
    for j, cspec in enumerate(comps):
        recs = [res[s][len(recipes) + j] for s in seeds]
        if any('reject' in r or 'error' in r for r in recs):
            classes.append('seed-dependent-build-outcome' if outcome_differs(recs) else 'component-rejected')
            continue
        evals += len(seeds)
        r0 = recs[0]
        if len({r['raw'] for r in recs}) > 1:
            other = next(r for r in recs if r['raw'] != r0['raw'])
            where = _text_diff(r0['text'], other['text']) if 'text' in r0 and 'text' in other else '(long text)'
            order_only = len({r['can'] for r in recs}) == 1
            _VIOLATION_SEEN[0] = max(1, _VIOLATION_SEEN[0])
            raise Violation(
                f"process-to_dict-differs:{r0.get('kind')}" + (':graph-or-mapping-order' if order_only else ''), observed={str(s): r['raw'] for s, r in zip(seeds, recs)}, expected='one text',
                detail=f'to_dict() of the same generated {r0.get("kind")} differs between interpreters with PYTHONHASHSEED {seeds}: {where}',
            )
        for c in r0.get('classes', []):
            if c.startswith('kind=') or c in ('string-categories', 'categories', 'joint'):
                classes.append('component:' + c)
    classes.append(f'nontrivial-recipes={min(nt, 5)}{"+" if nt >= 5 else ""}')
    return CaseInfo(nontrivial=nt >= 1, classes=tuple(sorted(set(classes))), render=render or None, evals=max(1, evals))


# ------------------------------------------------------------------------------------------
# sub-check hash_content


def mhash(model, clause='ModelHash'):
    from pharmpy.workflows.hashing import ModelHash

    with quiet_ctx():
        return str(guard(ModelHash, model, allowed=(), clause=clause))


def explain_dict_difference(m1, m2):
    """why do the to_dict() forms of two content-equal models differ"""
    d1, d2 = jnorm(m1.to_dict()), jnorm(m2.to_dict())
    if json.dumps(d1, default=repr) == json.dumps(d2, default=repr):
        return 'dict-equal', None
    if json.dumps(d1, sort_keys=True, default=repr) == json.dumps(d2, sort_keys=True, default=repr):
        return 'mapping-order', first_diff(d1, d2)
    c1, c2 = canon(d1), canon(d2)
    if json.dumps(c1, sort_keys=True, default=repr) == json.dumps(c2, sort_keys=True, default=repr):
        return 'graph-order', first_diff(d1, d2)
    if first_diff(c1, c2) is None:
        # equal as Python values (0 == 0.0) but not as JSON text
        return 'number-type', first_diff(c1, c2, strict=True)
    return 'other', first_diff(c1, c2)


def require_same_key(m1, m2, label, info):
    """m1 and m2 are the same content reached through two histories (label)"""
    with quiet_ctx():
        if not _eq(m1, m2, 'Model'):
            return 'not-equal'
        if not same_dataset(m1.dataset, m2.dataset):
            return 'dataset-differs'
        why, where = explain_dict_difference(m1, m2)
    if why == 'other':
        return 'eq-but-fingerprint-differs'
    h1, h2 = mhash(m1), mhash(m2)
    if h1 != h2:
        raise Violation(
            f'same-content-different-key:{why}:{label}', observed=[h1, h2], expected='equal keys',
            detail=f'two construction histories ({label}) give models that are == with equal datasets, but ModelHash differs; '
            f'to_dict() differs only in {why} at {where}; {info}',
        )
    return 'same-key' if why == 'dict-equal' else f'same-key-despite-{why}'


def with_ode(model, cs):
    from pharmpy.model import CompartmentalSystem, Statements

    sts = [cs if isinstance(s, CompartmentalSystem) else s for s in model.statements]
    return model.replace(statements=Statements(sts))


INVERSES = [
    ('add_peripheral', 'remove_peripheral'), ('add_lag', 'remove_lag'), ('fix', 'unfix'), ('fo_abs', 'inst_abs'), ('transits', 'transits0'), ('rename_amt', 'rename_amt_back'),
    ('add_F', 'remove_F'), ('joint', 'split'), ('mm_elim', 'fo_elim'), ('zo_abs', 'inst_abs'),
]


def _inverse_fn(name):
    import pharmpy.modeling as pm

    extra = dict(transits0=lambda m, a, b: pm.set_transit_compartments(m, 0), remove_F=lambda m, a, b: pm.remove_bioavailability(m))
    if name in extra:
        return extra[name]
    allops, _ = ops()
    return next(fn for n, fn, _ in allops if n == name)


def ode_symbols(cs):
    """symbols stored inside compartments (doses, lag time, bioavailability, input) with the number of
    compartments mentioning them, then the symbols of the rates"""
    from pharmpy.model import Compartment

    cnt = {}
    for c in cs._g.nodes:
        if isinstance(c, Compartment):
            for s in c.free_symbols:
                if s.is_symbol() and str(s) != 't':
                    cnt[str(s)] = cnt.get(str(s), 0) + 1
    inside = sorted(cnt, key=lambda s: (-cnt[s], s))
    rates = sorted({str(s) for _, _, r in cs._g.edges.data('rate') for s in r.free_symbols if str(s) != 't'} - set(inside))
    return inside, rates, cnt


EDIT_KINDS = ['init', 'lower', 'upper', 'fix', 'rv-variance', 'statement', 'step-option', 'cell', 'dtype']


def apply_edit(model, kind, a, b):
    """exactly one edit of the given kind -> (model', description); Reject when not applicable"""
    import pandas as pd  # noqa
    from pharmpy.basic import Expr
    from pharmpy.model import Assignment, EstimationStep, ExecutionSteps, JointNormalDistribution, NormalDistribution, Parameters, RandomVariables, SimulationStep, Statements

    def pick(xs, k, what):
        xs = list(xs)
        if not xs:
            raise Reject(f'edit {kind}: no {what}')
        return xs[k % len(xs)]

    if kind in ('init', 'lower', 'upper', 'fix'):
        ps = list(model.parameters)
        p = pick(ps, a, 'parameter')
        rvp = set(model.random_variables.parameter_names)
        if kind == 'init':
            if p.name in rvp:
                p = pick([q for q in ps if q.name not in rvp], a, 'non-variance parameter')
            cand = [p.init * 1.5 + 0.0625, p.init * 0.5 - 0.0625, (p.init + p.upper) / 2, (p.init + p.lower) / 2]
            v = next((c for c in cand if p.lower <= c <= p.upper and c != p.init and abs(c) != float('inf') and c == c), None)
            if v is None:
                raise Reject('edit init: no room within bounds')
            q = p.replace(init=v)
        elif kind == 'lower':
            q = p.replace(lower=(p.init - 1.0 - b) if p.lower == -float('inf') or p.lower >= p.init - 1.0 - b else -float('inf'))
        elif kind == 'upper':
            q = p.replace(upper=(p.init + 1.0 + b) if p.upper == float('inf') or p.upper <= p.init + 1.0 + b else float('inf'))
        else:
            q = p.replace(fix=not p.fix)
        new = Parameters.create([q if x.name == p.name else x for x in ps])
        return model.replace(parameters=new), f'{kind} of {p.name}: {p!r} -> {q!r}'
    if kind == 'rv-variance':
        rvs = model.random_variables
        dists = list(rvs)
        k = a % max(1, len(dists))
        d = pick(dists, a, 'distribution')
        if isinstance(d, NormalDistribution):
            old = d.variance
        else:
            old = d.variance[0, 0]
        if not old.is_symbol():
            raise Reject('edit rv-variance: variance is not a symbol')
        others = [Expr.symbol(n) for n in model.parameters.names if Expr.symbol(n) != old and n in rvs.parameter_names]
        if not others:
            others = [Expr.symbol(p.name) for p in model.parameters if Expr.symbol(p.name) != old and p.init > 0]
        new = pick(others, b, 'other variance parameter')
        if isinstance(d, NormalDistribution):
            d2 = NormalDistribution.create(d.names[0], d.level, d.mean, new)
        else:
            var = [[d.variance[i, j] for j in range(len(d))] for i in range(len(d))]
            var[0][0] = new
            d2 = JointNormalDistribution.create(d.names, d.level, d.mean, var)
        new_rvs = RandomVariables(tuple(d2 if i == k else x for i, x in enumerate(dists)), rvs._eta_levels, rvs._epsilon_levels)
        return model.replace(random_variables=new_rvs), f'variance symbol of {d.names[0]}: {old} -> {new}'
    if kind == 'statement':
        idx = [i for i, s in enumerate(model.statements) if isinstance(s, Assignment)]
        i = pick(idx, a, 'assignment')
        s = model.statements[i]
        s2 = Assignment.create(s.symbol, s.expression * (2 + b % 3) + 1)
        sts = list(model.statements)
        sts[i] = s2
        return model.replace(statements=Statements(sts)), f'statement {i}: {s!r} -> {s2!r}'
    if kind == 'step-option':
        steps = list(model.execution_steps)
        i = a % max(1, len(steps))
        s = pick(steps, a, 'execution step')
        if isinstance(s, EstimationStep):
            choice = b % 6
            if choice == 0:
                s2 = s.replace(interaction=not s.interaction)
            elif choice == 1:
                s2 = s.replace(maximum_evaluations=(s.maximum_evaluations or 100) + 1)
            elif choice == 2:
                topts = dict(s.tool_options)
                topts['C12OPT'] = 1
                s2 = s.replace(tool_options=topts)
            elif choice == 3:
                s2 = s.replace(method='IMP' if s.method != 'IMP' else 'SAEM')
            elif choice == 4:
                s2 = s.replace(solver='LSODA' if s.solver != 'LSODA' else 'CVODES')
            else:
                s2 = s.replace(niter=(s.niter or 5) + 1)
        else:
            s2 = SimulationStep(n=s.n + 1, seed=s.seed, solver=s.solver, solver_rtol=s.solver_rtol, solver_atol=s.solver_atol, tool_options=s.tool_options) if b % 2 == 0 else SimulationStep(
                n=s.n, seed=s.seed + 1, solver=s.solver, solver_rtol=s.solver_rtol, solver_atol=s.solver_atol, tool_options=s.tool_options
            )
        steps[i] = s2
        return model.replace(execution_steps=ExecutionSteps.create(steps)), f'execution step {i}: {s!r} -> {s2!r}'
    df = model.dataset
    if df is None or not len(df):
        raise Reject('no dataset')
    num = [c for c in df.columns if str(df[c].dtype).startswith(('float', 'int'))]
    col = pick(num, b, 'numeric column')
    df2 = df.copy()
    if kind == 'cell':
        r = a % len(df)
        old = df2[col].iloc[r]
        df2.loc[df2.index[r], col] = old + 1
        return model.replace(dataset=df2), f'cell [{r}, {col}]: {old!r} -> {df2[col].iloc[r]!r}'
    if kind == 'dtype':
        cur = str(df[col].dtype)
        for new in (['float32', 'float64'] if cur.startswith('float') else ['int64', 'int32', 'float64']):
            if new != cur:
                cast = df[col].astype(new)
                if cast.astype('float64').equals(df[col].astype('float64')):
                    df2[col] = cast
                    return model.replace(dataset=df2), f'dtype of {col}: {cur} -> {new} (values unchanged)'
        raise Reject('edit dtype: no value-preserving cast')
    raise Reject('unknown edit')


def CONTENT_SPEC():
    from . import c05

    k = _i
    return st.one_of(
        st.fixed_dictionaries(dict(mode=st.just('perm'), sys=st.fixed_dictionaries(dict(sys=c05._direct(c05.MAXN))), perm=st.lists(k, min_size=6, max_size=6), eperm=st.lists(k, min_size=16, max_size=16))),
        st.fixed_dictionaries(dict(mode=st.just('hist'), synth=c05.HISTORY)),
        st.fixed_dictionaries(dict(mode=st.just('rename'), recipe=RECIPE(), which=k, via=st.integers(0, 1), n=st.integers(1, 2))),
        st.fixed_dictionaries(dict(mode=st.just('rename'), recipe=RECIPE(), which=k, via=st.integers(0, 1), n=st.integers(1, 2))),
        st.fixed_dictionaries(dict(mode=st.just('inverse'), recipe=RECIPE(), pair=k, a=st.integers(0, 7), b=st.integers(0, 7))),
        st.fixed_dictionaries(dict(mode=st.just('meta'), recipe=RECIPE(), what=st.integers(0, 3))),
        st.fixed_dictionaries(dict(mode=st.just('maporder'), recipe=RECIPE(), what=st.integers(0, 1))),
        st.fixed_dictionaries(dict(mode=st.just('edit'), recipe=RECIPE(), edit=st.tuples(st.sampled_from(range(len(EDIT_KINDS))), k, k).map(list))),
        st.fixed_dictionaries(dict(mode=st.just('edit'), recipe=RECIPE(), edit=st.tuples(st.sampled_from(range(len(EDIT_KINDS))), k, k).map(list))),
    )


def run_hash_content(spec):
    from pharmpy.basic import Expr
    from pharmpy.model import ExecutionSteps

    spec = _dict(spec)
    mode = spec.get('mode')
    classes = [f'mode={mode}']
    nontrivial = False
    render = None
    evals = 1
    with quiet_ctx():
        if mode == 'perm':
            sysd = _dict(spec.get('sys'))
            b1 = build_cs(sysd)
            b2 = build_cs(sysd, perm=_list(spec.get('perm')), eperm=_list(spec.get('eperm')))
            n, nd = len(b1.ref.comps), len(b1.ref.dosed())
            try:
                m1, m2 = synth_model(b1), synth_model(b2)
            except Exception as e:  # noqa
                raise Reject(f'synthetic model: {type(e).__name__}')
            permuted = list(b1.ref.comps) != list(b2.ref.comps) or list(b1.ref.edges) != list(b2.ref.edges)
            classes += [f'ncomp={n}', f'ndose={nd}', 'permuted' if permuted else 'identity-permutation']
            res = require_same_key(m1, m2, 'builder-order', f'compartments added in order {list(b1.ref.comps)} vs {list(b2.ref.comps)}; flows {list(b1.ref.edges)} vs {list(b2.ref.edges)}')
            classes.append(res)
            nontrivial = permuted and nd >= 2
            render = dict(order1=list(b1.ref.comps), order2=list(b2.ref.comps))
        elif mode == 'hist':
            cspec = _dict(spec.get('synth'))
            b1 = build_cs(cspec)
            b2 = build_cs(cspec, direct_of_final=True)
            n, nd = len(b1.ref.comps), len(b1.ref.dosed())
            try:
                m1, m2 = synth_model(b1), synth_model(b2)
            except Exception as e:  # noqa
                raise Reject(f'synthetic model: {type(e).__name__}')
            classes += [f'ncomp={n}', f'ndose={nd}', 'relabelled' if b1.relabel else 'not-relabelled']
            res = require_same_key(m1, m2, 'builder-history-vs-direct', f'operations {b1.log} vs direct construction of {b1.ref.render()}')
            classes.append(res)
            nontrivial = (n >= 3 and b1.relabel) or nd >= 2
            render = dict(ops=b1.log, final=b1.ref.render())
        elif mode == 'rename':
            b = build_model(spec.get('recipe'))
            m1 = b.model
            cs = m1.statements.ode_system
            if cs is None:
                raise Reject('no ODE system')
            inside, rates, cnt = ode_symbols(cs)
            pool = inside + rates
            if not pool:
                raise Reject('no symbols')
            k = _int(spec.get('which'))
            names = []
            for j in range(1 + (_int(spec.get('n')) - 1) % 2):
                nm = (inside if inside and (k + j) % 4 != 3 else pool)[(k + j) % len(inside if inside and (k + j) % 4 != 3 else pool)]
                if nm not in names:
                    names.append(nm)
            there = {Expr.symbol(nm): Expr.symbol(nm + '_TMP') for nm in names}
            back = {v: key for key, v in there.items()}
            via = _int(spec.get('via')) % 2
            try:
                if via == 0:
                    m2 = with_ode(m1, cs.subs(there).subs(back))
                    label = 'subs-there-and-back'
                else:
                    from pharmpy.modeling import rename_symbols

                    m2 = rename_symbols(rename_symbols(m1, there), back)
                    label = 'rename_symbols-there-and-back'
            except Exception as e:  # noqa
                raise Reject(f'renaming refused: {type(e).__name__}')
            f = b.facts()
            touched = max((cnt.get(nm, 0) for nm in names), default=0)
            classes += [label, f"ncomp={min(f['ncomp'], 6)}", f"ndose={f['ndose']}", f'compartments-touched={min(touched, 3)}', f'start={b.start}']
            res = require_same_key(m1, m2, label, f'renamed {names} to *_TMP and back; start={b.start} applied={b.applied}')
            classes.append(res)
            nontrivial = (f['ncomp'] >= 3 and touched >= 1) or f['ndose'] >= 2
            render = dict(start=b.start, applied=b.applied, renamed=names, via=label)
        elif mode == 'inverse':
            b = build_model(spec.get('recipe'))
            m1 = b.model
            fwd, inv = INVERSES[_int(spec.get('pair')) % len(INVERSES)]
            a_, b_ = _int(spec.get('a')), _int(spec.get('b'))
            try:
                mid = _inverse_fn(fwd)(m1, a_, b_)
                m2 = _inverse_fn(inv)(mid, a_, b_)
            except Exception as e:  # noqa
                raise Reject(f'{fwd}/{inv} not applicable: {type(e).__name__}')
            f = b.facts()
            classes += [f'pair={fwd}/{inv}', f'start={b.start}']
            if _eq(mid, m1, 'Model'):
                classes.append('forward-was-noop')
            res = require_same_key(m1, m2, 'transformation-and-inverse', f'{fwd} then {inv}; start={b.start} applied={b.applied}')
            classes.append(res)
            nontrivial = res.startswith('same-key') and ((f['ncomp'] >= 3 and _relabelled(m1, mid)) or f['ndose'] >= 2)
            render = dict(start=b.start, applied=b.applied, pair=[fwd, inv], result=res)
        elif mode == 'meta':
            b = build_model(spec.get('recipe'))
            m1 = b.model
            what = ['name', 'description', 'path', 'all'][_int(spec.get('what')) % 4]
            m2 = m1
            if what in ('name', 'all'):
                m2 = m2.replace(name=m1.name + '_other')
            if what in ('description', 'all'):
                m2 = m2.replace(description=(m1.description or '') + ' changed')
            if what in ('path', 'all'):
                m2 = m2.replace(datainfo=m2.datainfo.replace(path='/some/other/place/data.csv'))
            h1, h2 = mhash(m1), mhash(m2)
            f = b.facts()
            nontrivial = f['nontrivial']
            classes += [f'meta={what}', f'start={b.start}']
            if h1 != h2:
                raise Violation(f'metadata-changes-key:{what}', observed=[h1, h2], detail=f'only {what} changed; start={b.start} applied={b.applied}')
            render = dict(start=b.start, applied=b.applied, changed=what)
        elif mode == 'maporder':
            b = build_model(spec.get('recipe'))
            m1 = b.model
            what = _int(spec.get('what')) % 2
            if what == 0:
                steps = list(m1.execution_steps)
                idx = [i for i, s in enumerate(steps) if len(s.tool_options) >= 2]
                if not idx:
                    steps = [s.replace(tool_options={'C12A': 1, 'C12B': 2}) if hasattr(s, 'method') else s for s in steps]
                    m1 = m1.replace(execution_steps=ExecutionSteps.create(steps))
                    idx = [i for i, s in enumerate(steps) if len(s.tool_options) >= 2]
                if not idx:
                    raise Reject('no estimation step')
                i = idx[0]
                s = steps[i]
                steps2 = list(steps)
                steps2[i] = s.replace(tool_options=dict(reversed(list(s.tool_options.items()))))
                m2 = m1.replace(execution_steps=ExecutionSteps.create(steps2))
                label = 'tool_options-insertion-order'
            else:
                dvs = dict(m1.dependent_variables)
                if len(dvs) < 2:
                    raise Reject('one dependent variable')
                m2 = m1.replace(dependent_variables=dict(reversed(list(dvs.items()))), observation_transformation=dict(reversed(list(m1.observation_transformation.items()))))
                label = 'dependent_variables-insertion-order'
            classes += [label, f'start={b.start}']
            res = require_same_key(m1, m2, label, f'start={b.start} applied={b.applied}')
            classes.append(res)
            nontrivial = b.facts()['nontrivial']
            render = dict(start=b.start, applied=b.applied, what=label)
        elif mode == 'edit':
            b = build_model(spec.get('recipe'))
            m1 = b.model
            e = _pad(spec.get('edit'), 3)
            kind = EDIT_KINDS[_int(e[0]) % len(EDIT_KINDS)]
            try:
                m2, desc = apply_edit(m1, kind, _int(e[1]), _int(e[2]))
            except Reject:
                raise
            except Exception as ex:  # noqa
                raise Reject(f'edit {kind} refused: {type(ex).__name__}: {str(ex)[:60]}')
            differs = (not _eq(m1, m2, 'Model')) or not same_dataset(m1.dataset, m2.dataset)
            if not differs:
                raise Reject(f'edit {kind} was a no-op')
            h1, h2 = mhash(m1), mhash(m2)
            f = b.facts()
            nontrivial = f['nontrivial']
            classes += [f'edit={kind}', f'start={b.start}']
            if h1 == h2:
                raise Violation(f'different-content-same-key:{kind}', observed=h1, detail=f'{desc}; start={b.start} applied={b.applied}')
            render = dict(start=b.start, applied=b.applied, edit=desc)
        else:
            raise Reject('unknown mode')
    return CaseInfo(nontrivial=bool(nontrivial), classes=tuple(classes), render=render, evals=evals)


# ------------------------------------------------------------------------------------------
# known-finding predicates (deterministic functions of the spec)


def op_selector(name):
    """smallest step selector k that resolves to the transformation `name` (for hand-written specs)"""
    allops, index = ops()
    for k in range(N_OPSEL):
        if allops[index[(k * 197 + 13) % len(index)]][0] == name:
            return k
    raise HarnessError(f'no selector for {name}')


def _spec_object(spec):
    """the object a components / generic_code / hash_content spec talks about (model or ExecutionSteps)"""
    spec = _dict(spec)
    with quiet_ctx():
        if spec.get('kind') == 'steps':
            return build_steps(spec)
        if isinstance(spec.get('recipe'), dict):
            return build_model(spec['recipe']).model
    return None


def pred_has_derivatives(spec):
    from pharmpy.model import ExecutionSteps

    x = _spec_object(spec)
    steps = x if isinstance(x, ExecutionSteps) else getattr(x, 'execution_steps', ())
    return any(len(getattr(s, 'derivatives', ())) > 0 for s in steps)


def pred_has_iie(spec):
    x = _spec_object(spec)
    return getattr(x, 'initial_individual_estimates', None) is not None


def pred_value_type_symbol(spec):
    x = _spec_object(spec)
    return x is not None and hasattr(x, 'value_type') and not isinstance(x.value_type, str)


INIT_HELPER_OPS = ('mixed_elim', 'mm_elim', 'transits', 'fo_abs', 'zo_abs', 'seq_abs', 'add_lag')


def pred_batch_uses_init_from_parameter(spec):
    """some recipe of the batch applies a transformation that takes the initial estimate of a new
    parameter from an existing one (modeling/odes.py::_extract_params_from_symb)"""
    allops, index = ops()
    for r in _list(_dict(spec).get('recipes')):
        for st_ in _list(_dict(r).get('steps'))[:3]:
            k = _int(_pad(st_, 3)[0])
            if allops[index[(k * 197 + 13) % len(index)]][0] in INIT_HELPER_OPS:
                return True
    return False


KNOWN_PREDICATES = {
    'batch_uses_init_from_existing_parameter': pred_batch_uses_init_from_parameter,
    'has_derivatives': pred_has_derivatives,
    'has_initial_individual_estimates': pred_has_iie,
    'value_type_is_symbol': pred_value_type_symbol,
}


# ------------------------------------------------------------------------------------------


def selfcheck():
    a = {'class': 'CompartmentalSystem', 'compartments': [{'class': 'Output'}, {'class': 'Compartment', 'name': 'A'}, {'class': 'Compartment', 'name': 'B'}], 'rates': [[1, 2, 'K'], [2, 0, 'L']], 't': 't'}
    b = {'t': 't', 'class': 'CompartmentalSystem', 'compartments': ({'class': 'Compartment', 'name': 'B'}, {'class': 'Output'}, {'name': 'A', 'class': 'Compartment'}), 'rates': [(0, 1, 'L'), (2, 0, 'K')]}
    c = dict(b, rates=[(0, 1, 'L'), (0, 2, 'K')])
    if digest(a, True) != digest(b, True) or digest(a, True) == digest(c, True) or digest(a, False) == digest(b, False):
        raise HarnessError('canonical form of compartmental systems is wrong')
    if jnorm({'a': (1, (2, 3))}) != {'a': [1, [2, 3]]} or retuple({'a': [1, [2]]}) != {'a': (1, (2,))}:
        raise HarnessError('jnorm / retuple wrong')
    if non_json({'a': {1: 2}}) is None or non_json({'a': [1, 'x', None, 2.5, True]}) is not None or non_json({'a': object()}) is None:
        raise HarnessError('non_json wrong')
    if first_diff({'a': [1, 2]}, {'a': [1, 3]}) is None or first_diff({'a': [1, 2.0]}, {'a': [1, 2]}) is not None or first_diff({'1': 2}, {1: 2}) is None:
        raise HarnessError('first_diff wrong')


# hash_process first: its shards mostly wait for their interpreters, so they should not be the tail of the run
SUBCHECKS = [
    SubCheck('hash_process', PROCESS_SPEC, run_hash_process, quick=16, thorough=100, quick_time=600.0, thorough_time=3000.0),
    SubCheck('components', COMPONENTS, run_components, quick=2600, thorough=20720, quick_time=600.0, thorough_time=3000.0),
    SubCheck('generic_code', GENERIC_SPEC, run_generic_code, quick=300, thorough=2080, quick_time=600.0, thorough_time=3000.0),
    SubCheck('hash_content', CONTENT_SPEC, run_hash_content, quick=1000, thorough=8280, quick_time=600.0, thorough_time=3000.0),
]


if __name__ == '__main__':
    if len(sys.argv) == 3 and sys.argv[1] == '--worker':
        sys.exit(worker_main(sys.argv[2]))
    print('usage: python -m pv.checks.c12 --worker <batch file>')
    sys.exit(2)
