"""C16 -- Model database and run context: atomic and faithful, even across crashes.

A workload (<= 4 context operations over <= 3 small NONMEM models, two of which may share a
dataset, some with ModelfitResults) is executed against a LocalDirectoryContext in a scratch
directory while engine E7 (pv/faultfs.py) numbers every state-changing file-system operation
under that directory.  A reference model of the *committed* state (names -> key, key -> entry,
annotations, metadata, ordered log) is maintained next to it.

  k = 0          fault-free: every retrieve, and the final state, must equal the reference
                 (clauses F:*).
  mode 'crash'   SimulatedCrash at operation k (torn write for writes), everything is dropped,
                 advisory locks are released as process death would, fresh context/database
                 objects are opened on the directory, clauses A1-A4.
  mode 'enospc'  OSError(ENOSPC) at operation k, process continues, same clauses.

Clauses (ids are prefixes of the reported clause):
  F:<op>:...            fault-free faithfulness: an operation raised, or what was retrieved differs
                        (model.parameters/random_variables/statements/execution_steps/datainfo/dataset,
                        modelfit_results.<field>, name, description, retrieve_key/name, metadata, log rows)
  A1:inflight-by-name / A1:inflight-by-key / A1:log:partial-or-foreign-row-visible
                        an entry (row) returned without error for the interrupted operation is not the
                        complete entry that was being stored (nor the previously committed one)
  A2:...                an entry/annotation/metadata committed before the fault cannot be retrieved any
                        more or differs (A2:committed-entry-blocked-by-interrupted-restore: the
                        interrupted operation re-stored an already committed model)
  A3:store-other[-sharing-dataset]:...
                        storing another model of the pool after restart fails, or it is then not
                        retrievable/equal
  A4:...                log rows committed before the fault are lost/garbled (also after one more append)
  F:log-after-restart:  a message logged successfully after the restart cannot be retrieved verbatim

Sub-checks: faithful (k=0, adversarial text), faults (every k of the enumerated workloads in both
modes + generated workloads with sampled k), sim_vs_kill (engine validation against a forked
child that really dies at the same operation).
"""

from __future__ import annotations

import contextlib
import dataclasses
import datetime
import io
import json
import os
import re
import shutil

from hypothesis import strategies as st

from .. import faultfs
from ..core import VERIF_DIR, CaseInfo, HarnessError, Reject, SubCheck, Violation, innermost_pharmpy_frame, spec_hash
from ..faultfs import FaultFS, SimulatedCrash

PROPERTY = 'C16'
LEVEL = 'fault_enumeration'
RULE = (
    'Workload = <=4 operations from {store_model_entry, store_input/final_model_entry, retrieve_model_entry, '
    'retrieve_key+retrieve_name, log_info/warning/error (with or without model), store_annotation, store_metadata, '
    'create_subcontext} over a pool of <=3 NONMEM models (4 code variants x 3 datasets, so models may share a dataset; '
    '3 kinds of ModelfitResults incl. none), names unique per key. A case is one (workload, fault) pair: the fault-free '
    'run (k=0) or one numbered file-system operation k of the workload (counted by a fault-free run; EVERY k in 1..N is '
    'enumerated for each enumerated workload, writes additionally with torn prefixes) in mode crash (process death) or '
    'enospc (exception, process continues). evaluations = number of such runs. Non-trivial = the fault hits strictly '
    'inside a store_*_model_entry operation (after its first and before the end of its last file-system operation) while '
    '>=1 model entry had been committed earlier in the workload. Distinct = (workload, mode, k, cut).'
)
ASSUMPTIONS = [
    'operations are numbered at system-call granularity: data given to file.write() is buffered until flush/close and '
    'becomes ONE write operation (a dying process loses its user-space buffer); a torn write leaves a prefix of that '
    'buffer whose length is chosen by the spec (0 = nothing)',
    'operations that change neither the tree nor file contents (close, utime, opens without creation/truncation, mkdir '
    'of an existing directory) are intercepted (they raise after death) but are not crash points: the disk state equals '
    'that of the next numbered operation',
    'models are parsed from NONMEM code and are fixed points of write_model/read_model (self-check), ModelfitResults are '
    'fixed points of to_json/read_results (self-check), so any difference is attributable to the database/context layer',
    'the database is content addressed: an entry is identified by its model (ModelHash ignores name, description and '
    'results); the reference therefore keeps per key the latest stored non-None results, and names are aliases of keys',
    'model/context names contain no "/", NUL, CR, LF and are not empty; descriptions/annotations contain no CR/LF '
    '($PROBLEM and the annotations file are line based); log messages and metadata strings are arbitrary text',
    'for the operation in flight at the fault, PendingTransactionError/KeyError/FileNotFoundError (and any other error) '
    'are acceptable answers; only an entry returned without error is compared',
    'in-process simulation of process death is validated against a forked child killed by os._exit at the same operation '
    '(sub-check sim_vs_kill compares the resulting directory trees)',
]

SCRATCH = os.path.join(VERIF_DIR, '.scratch')

# ---------------------------------------------------------------------------------------------
# model pool

_CODE = '''$PROBLEM base
$INPUT ID TIME AMT DV
$DATA d.csv IGNORE=@
$SUBROUTINES ADVAN1 TRANS2
$PK
CL = THETA(1)*EXP(ETA(1))
V = THETA(2)*EXP(ETA(2))
S1 = V
$ERROR
Y = F + F*EPS(1)
$THETA (0,0.01) ; TVCL
$THETA (0,1.0) ; TVV
$OMEGA 0.1 ; IVCL
$OMEGA 0.1 ; IVV
$SIGMA 0.09 ; RUV
$ESTIMATION METHOD=COND INTER
'''


def _code(v):
    c = _CODE
    if v == 1:
        c = c.replace('(0,0.01)', '(0,0.02)').replace('(0,1.0)', '(0,2.5)')
    elif v == 2:
        c = c.replace('Y = F + F*EPS(1)', 'Y = F + EPS(1)')
    elif v == 3:
        c = c.replace('V = THETA(2)*EXP(ETA(2))', 'V = THETA(2)').replace('$OMEGA 0.1 ; IVV\n', '')
    return c


NV = 4
ND = 3
NR = 4


def _dataset(d):
    import numpy as np
    import pandas as pd

    if d == 0:
        rows = [(1, 0, 10, 0), (1, 1, 0, 5.5), (1, 2, 0, 3), (2, 0, 10, 0), (2, 1, 0, 6), (2, 2, 0, 2.25)]
    elif d == 1:
        rows = [(1, 0, 20, 0), (1, 0.5, 0, 9.75), (1, 4, 0, 1.5), (2, 0, 20, 0), (2, 0.5, 0, 11), (3, 0, 20, 0), (3, 3, 0, 4.125)]
    else:
        rows = [(1, 0, 5, 0), (1, 2, 0, 1.25), (2, 0, 5, 0), (2, 2, 0, 0.75)]
    df = pd.DataFrame(rows, columns=['ID', 'TIME', 'AMT', 'DV']).astype('float64')
    df['ID'] = df['ID'].astype(np.int32)
    return df


_BASE = {}
_KEYS = {}


def base_model(v, d):
    """NONMEM model variant v with in-memory dataset d (cached per process)."""
    k = (v, d)
    if k not in _BASE:
        from pharmpy.modeling import read_model_from_string

        m = read_model_from_string(_code(v))
        m = m.replace(dataset=_dataset(d))
        _BASE[k] = m
    return _BASE[k]


def model_key(v, d):
    k = (v, d)
    if k not in _KEYS:
        from pharmpy.workflows.hashing import ModelHash

        h = ModelHash(base_model(v, d))
        _KEYS[k] = (str(h), str(h.dataset_hash))
    return _KEYS[k][0]


def dataset_hash(v, d):
    model_key(v, d)
    return _KEYS[(v, d)][1]


_T0 = datetime.datetime(2026, 1, 2, 3, 4, 5, 678)


def make_results(v, r, rt):
    """ModelfitResults kind r (0 = None) for model variant v; rt = free text put into warnings/log."""
    if r == 0:
        return None
    import pandas as pd
    from pharmpy.workflows import Log, ModelfitResults
    from pharmpy.workflows.log import LogEntry

    names = list(base_model(v, 0).parameters.names)
    pe = pd.Series([round(0.02 * (i + 1) + 0.001 * v, 6) for i in range(len(names))], index=names, name='estimates')
    if r == 1:
        return ModelfitResults(ofv=-12.5 - v, parameter_estimates=pe, minimization_successful=True, gradients_iterations=None)
    cov = pd.DataFrame([[1.0, 0.5], [0.5, 2.0 + v]], index=names[:2], columns=names[:2])
    ie = pd.DataFrame({'ETA_1': [0.1, -0.1], 'ETA_2': [0.0, 0.3]}, index=pd.Index([1, 2], name='ID'))
    log = Log((LogEntry(category='WARNING', message=rt, time=_T0),))
    if r == 3:
        # a log with many entries (entry order must survive the JSON round trip; 10+ entries have
        # multi-digit positions)
        n = [2, 3, 10, 11, 12, 25][(len(rt) + v) % 6]
        cats = ['WARNING', 'ERROR', 'INFORMATION']
        log = Log(tuple(LogEntry(category=cats[(i + v) % 3], message=f'{rt}#{i}', time=_T0 + datetime.timedelta(seconds=7 * i)) for i in range(n)))
    return ModelfitResults(
        ofv=101.25 + v, parameter_estimates=pe, minimization_successful=False, covariance_matrix=cov,
        individual_estimates=ie, warnings=[rt, 'w2'], termination_cause='rounding_errors', log=log,
        gradients_iterations=None, significant_digits=3.5,
    )


# ---------------------------------------------------------------------------------------------
# comparison


def _same_value(a, b):
    import pandas as pd

    if isinstance(a, (pd.Series, pd.DataFrame)) or isinstance(b, (pd.Series, pd.DataFrame)):
        return type(a) is type(b) and a.equals(b) and (not isinstance(a, pd.Series) or a.name == b.name)
    if isinstance(a, (list, tuple)) and isinstance(b, (list, tuple)):
        return len(a) == len(b) and all(_same_value(x, y) for x, y in zip(a, b))
    if isinstance(a, float) and isinstance(b, float) and a != a and b != b:
        return True
    from pharmpy.workflows import Log

    if isinstance(a, Log) or isinstance(b, Log):
        if not (isinstance(a, Log) and isinstance(b, Log)):
            return False
        return [(e.category, e.message, e.time) for e in a] == [(e.category, e.message, e.time) for e in b]
    return type(a) is type(b) and a == b or (isinstance(a, (int, float)) and isinstance(b, (int, float)) and not isinstance(a, bool) and not isinstance(b, bool) and a == b)


def diff_results(got, exp):
    """None when equal, else (field, observed, expected)."""
    if exp is None or got is None:
        if exp is None and got is None:
            return None
        return ('modelfit_results', _short(got), _short(exp))
    if type(got) is not type(exp):
        return ('modelfit_results.type', type(got).__name__, type(exp).__name__)
    for f in dataclasses.fields(exp):
        a, b = getattr(got, f.name), getattr(exp, f.name)
        if not _same_value(a, b):
            return ('modelfit_results.' + f.name, _short(a), _short(b))
    return None


def _short(x):
    s = repr(x)
    return s if len(s) < 300 else s[:300] + '...'


def diff_model(got, exp, with_name=True):
    """Structural comparison of two models; None when equivalent."""
    if with_name:
        if got.name != exp.name:
            return ('name', got.name, exp.name)
        if got.description != exp.description:
            return ('description', got.description, exp.description)
    if got.parameters != exp.parameters:
        return ('parameters', _short(got.parameters), _short(exp.parameters))
    if got.random_variables != exp.random_variables:
        return ('random_variables', _short(got.random_variables), _short(exp.random_variables))
    if got.statements != exp.statements:
        return ('statements', _short(got.statements), _short(exp.statements))
    if got.execution_steps != exp.execution_steps:
        return ('execution_steps', _short(got.execution_steps), _short(exp.execution_steps))
    if got.datainfo != exp.datainfo:
        return ('datainfo', _short(got.datainfo.to_dict()), _short(exp.datainfo.to_dict()))
    gd, ed = got.dataset, exp.dataset
    if gd is None or not gd.equals(ed) or list(gd.dtypes) != list(ed.dtypes):
        return ('dataset', _short(None if gd is None else gd.to_dict('list')), _short(ed.to_dict('list')))
    return None


# ---------------------------------------------------------------------------------------------
# spec -> plan (total interpretation)

OPS = ['store', 'log', 'retrieve', 'store_input', 'store_final', 'keyname', 'annotate', 'metadata', 'subctx']
STORES = ('store', 'store_input', 'store_final')
SEV = ['info', 'warning', 'error']
_BAD_NAME = re.compile(r'[/\x00\r\n]')
_BAD_LINE = re.compile(r'[\r\n]')


def _clean_name(t, fallback):
    t = _BAD_NAME.sub('', str(t))[:24].strip()
    if not t or t.startswith('.') or t in ('input', 'final'):
        t = fallback + t
    return t


def _clean_desc(t):
    """model description = $PROBLEM title: one line, latin-1 (the encoding of NONMEM code files), no NONMEM comment
    character, no leading blank (Model refuses those with ValueError)."""
    t = _BAD_LINE.sub('', str(t)).replace(';', '')
    t = ''.join(ch for ch in t if ord(ch) < 256 and ch not in '\x00\t').lstrip()
    return t[:40]


def _jsonish(x, depth=0):
    """metadata values: JSON-native, finite, str keys."""
    if isinstance(x, dict) and depth < 2:
        return {str(k)[:12]: _jsonish(v, depth + 1) for k, v in list(x.items())[:3]}
    if isinstance(x, list) and depth < 2:
        return [_jsonish(v, depth + 1) for v in x[:3]]
    if isinstance(x, bool) or x is None or isinstance(x, str):
        return x
    if isinstance(x, int):
        return x
    if isinstance(x, float):
        return x if x == x and abs(x) != float('inf') else 0.0
    return str(x)[:12]


class Plan:
    def __init__(self, spec):
        if not isinstance(spec, dict):
            raise Reject('spec is not a dict')
        self.top = _clean_name(spec.get('top', 'ctx'), 'c')
        self.models = []
        seen = {}  # name -> (v, d)
        for i, m in enumerate((spec.get('models') or [])[:3]):
            if not isinstance(m, dict):
                continue
            v, d, r = int(m.get('v', 0)) % NV, int(m.get('d', 0)) % ND, int(m.get('r', 0)) % NR
            name = _clean_name(m.get('name', ''), 'm')
            if name in seen and seen[name] != (v, d):
                name = f'{name}_{i}'
            if name in seen and seen[name] != (v, d):
                name = f'{name}x{i}'
            seen[name] = (v, d)
            self.models.append(
                dict(v=v, d=d, r=r, name=name, desc=_clean_desc(m.get('desc', '')), rt=str(m.get('rt', ''))[:40], as_model=bool(m.get('as_model', False)) and r == 0)
            )
        if not self.models:
            self.models.append(dict(v=0, d=0, r=0, name='m', desc='', rt='', as_model=False))
        self.ops = []
        for o in (spec.get('ops') or [])[:4]:
            if not isinstance(o, dict):
                continue
            kind = OPS[int(o.get('op', 0)) % len(OPS)]
            self.ops.append(
                dict(
                    kind=kind, m=int(o.get('m', 0)) % len(self.models), c=int(o.get('c', 0)), text=str(o.get('t', ''))[:60],
                    sev=SEV[int(o.get('sev', 0)) % 3], wm=bool(o.get('wm', False)), meta=_jsonish(o.get('meta') if isinstance(o.get('meta'), dict) else {}),
                )
            )
        if spec.get('pfx'):
            # prefix family (run10 / run1 / run): the pool model whose name is written first (store or
            # store_annotation) gets the longest name, models written later get proper prefixes of it
            stem = self.models[0]['name'][:10] or 'run'  # keeps the adversarial characters of the generated name
            if stem in ('input', 'final'):
                stem += '_'
            order = []
            for o in self.ops:
                if o['kind'] in ('store', 'annotate') and o['m'] not in order:
                    order.append(o['m'])
            order += [i for i in range(len(self.models)) if i not in order]
            for rank, i in enumerate(order):
                self.models[i]['name'] = stem + ['10', '1', ''][rank]
        self.k = max(0, int(spec.get('k', 0) or 0))
        self.cut = max(0, min(1000, int(spec.get('cut', 0) or 0)))
        self.mode = 'enospc' if spec.get('mode') == 'enospc' else 'crash'
        self.wkey = spec_hash([self.top, self.models, self.ops])  # models carry the final names

    def render(self):
        out = [f'top={self.top!r}']
        for i, m in enumerate(self.models):
            out.append(f"M{i}: code v{m['v']} data d{m['d']} results r{m['r']} name={m['name']!r} desc={m['desc']!r}" + (' (stored as Model)' if m['as_model'] else ''))
        for o in self.ops:
            if o['kind'] in STORES or o['kind'] in ('retrieve', 'keyname'):
                out.append(f"{o['kind']} M{o['m']} in ctx#{o['c']}")
            elif o['kind'] == 'log':
                out.append(f"log_{o['sev']}({o['text']!r}" + (f", model=M{o['m']}" if o['wm'] else '') + f") in ctx#{o['c']}")
            elif o['kind'] == 'annotate':
                out.append(f"store_annotation(M{o['m']}, {_BAD_LINE.sub('', o['text'])!r}) in ctx#{o['c']}")
            elif o['kind'] == 'metadata':
                out.append(f"store_metadata({o['meta']!r}) in ctx#{o['c']}")
            else:
                out.append(f"create_subcontext({_clean_name(o['text'], 's')!r}) in ctx#{o['c']}")
        return out


class Pool:
    """Expected pharmpy objects for a plan."""

    def __init__(self, plan):
        self.plan = plan

    def vd(self, i):
        m = self.plan.models[i]
        return (m['v'], m['d'])

    def key(self, i):
        return model_key(*self.vd(i))

    def model(self, i, name=None, desc=None):
        m = self.plan.models[i]
        return base_model(m['v'], m['d']).replace(name=m['name'] if name is None else name, description=m['desc'] if desc is None else desc)

    def rid(self, i):
        m = self.plan.models[i]
        return None if m['r'] == 0 else (m['v'], m['r'], m['rt'])

    @staticmethod
    def results(rid):
        return None if rid is None else make_results(*rid)

    def entry(self, i, name=None):
        from pharmpy.workflows import ModelEntry

        m = self.plan.models[i]
        model = self.model(i, name=name)
        if m['as_model']:
            return model
        return ModelEntry.create(model, modelfit_results=self.results(self.rid(i)))


# ---------------------------------------------------------------------------------------------
# reference model of the committed state


class Ref:
    def __init__(self, top):
        self.ctx = [dict(path=(top,), names={}, meta=None, annotations={})]
        self.db = {}  # key -> dict(vd, rid)
        self.log = []  # (ctxpath, severity, message)
        self.nstores = 0

    def ctxpath(self, c):
        return '/'.join(self.ctx[c]['path'])

    def commit_store(self, c, name, key, vd, rid, desc):
        cur = self.db.get(key)
        if cur is None:
            self.db[key] = dict(vd=vd, rid=rid)
        elif rid is not None:
            cur['rid'] = rid
        self.ctx[c]['names'][name] = dict(key=key, vd=vd, stored_rid=rid)
        self.ctx[c]['annotations'][name] = desc
        self.nstores += 1


class _Interrupted(Exception):
    """The injected OSError (or its consequence) escaped from the operation in flight."""


class Run:
    """One execution of a plan in a scratch root under a FaultFS."""

    def __init__(self, plan, root, fs):
        self.plan = plan
        self.pool = Pool(plan)
        self.root = root
        self.fs = fs
        self.ref = Ref(plan.top)
        self.ctxs = []
        self.steps = []  # per executed step: dict(kind, a, b, key, name, c); step 0 = open top context
        self.inflight = None
        self.status = 'done'
        self.obs = set()
        self.skipped = []

    # -- calling into pharmpy during the workload ------------------------------------------------
    def call(self, what, fn):
        fs = self.fs
        try:
            with contextlib.redirect_stdout(io.StringIO()):
                return fn()
        except SimulatedCrash:
            raise
        except (Violation, HarnessError, Reject):
            raise
        except Exception as e:
            if fs.mode == 'enospc' and fs.fired and self.status == 'done':
                raise _Interrupted(f'{type(e).__name__}: {e}')
            if isinstance(e, (ValueError, NotImplementedError)) and what in STORES and not isinstance(e, UnicodeError):
                raise Reject(f'{what} refused: {type(e).__name__}: {str(e)[:60]}')
            where = innermost_pharmpy_frame(e)
            if where == 'outside-pharmpy':
                raise HarnessError(f'exception outside pharmpy during {what}: {type(e).__name__}: {e}')
            raise Violation(f'F:{what}:{type(e).__name__}@{where}', detail=f'{type(e).__name__}: {str(e)[:400]}')

    def execute(self):
        from pharmpy.workflows import LocalDirectoryContext

        plan, ref = self.plan, self.ref
        steps = [dict(kind='open')] + plan.ops
        for i, op in enumerate(steps):
            n0 = self.fs.n
            self.inflight = dict(i=i, kind=op['kind'])
            try:
                if op['kind'] == 'open':
                    self.ctxs.append(self.call('open-context', lambda: LocalDirectoryContext(plan.top, ref=self.root)))
                else:
                    self._step(op)
            except SimulatedCrash:
                self.status = 'crashed'
                self._record(n0)
                return
            except _Interrupted as e:
                self.status = 'interrupted'
                self.inflight['error'] = str(e)
                self._record(n0)
                return
            self._record(n0)
            self.inflight = None

    def _record(self, n0):
        fl = self.inflight
        key = fl.get('key')
        self.steps.append(
            dict(kind=fl['kind'], a=n0 + 1, b=self.fs.n, key=key, name=fl.get('name'), c=fl.get('c'), recommit=bool(fl.get('recommit')))
        )

    def _step(self, op):
        plan, pool, ref = self.plan, self.pool, self.ref
        c = op['c'] % len(self.ctxs)
        ctx = self.ctxs[c]
        cref = ref.ctx[c]
        kind = op['kind']
        fl = self.inflight
        fl['c'] = c
        if kind in STORES:
            i = op['m']
            name = {'store': plan.models[i]['name'], 'store_input': 'input', 'store_final': 'final'}[kind]
            key = pool.key(i)
            bound = cref['names'].get(name)
            if bound is not None and bound['key'] != key:
                self.skipped.append(f'{kind}: name {name!r} already bound to another model')
                fl['kind'] = 'skip'
                return
            desc = plan.models[i]['desc']
            fl.update(name=name, key=key, m=i, rid=pool.rid(i), desc=desc, vd=pool.vd(i))
            entry = pool.entry(i)
            fn = {'store': ctx.store_model_entry, 'store_input': ctx.store_input_model_entry, 'store_final': ctx.store_final_model_entry}[kind]
            fl['recommit'] = key in ref.db
            self.call(kind, lambda: fn(entry))
            ref.commit_store(c, name, key, pool.vd(i), pool.rid(i), desc)
        elif kind == 'retrieve':
            name = plan.models[op['m']]['name']
            fl['kind'] = 'retrieve'
            if name in cref['names']:
                me = self.call('retrieve', lambda: ctx.retrieve_model_entry(name))
                check_entry(me, ref, c, name, 'F', self)
            else:
                try:
                    with contextlib.redirect_stdout(io.StringIO()):
                        me = ctx.retrieve_model_entry(name)
                except SimulatedCrash:
                    raise
                except Exception:
                    me = None
                if me is not None:
                    raise Violation('F:retrieve:entry-for-unstored-name', observed=me.model.name, detail=f'name {name!r} was never stored in this context')
        elif kind == 'keyname':
            name = plan.models[op['m']]['name']
            if name not in cref['names']:
                self.skipped.append('keyname: name not stored')
                fl['kind'] = 'skip'
                return
            check_keyname(ctx, cref, name, 'F', self.call)
        elif kind == 'log':
            sev = op['sev']
            msg = op['text']
            model = pool.model(op['m']) if op['wm'] else None
            path = ref.ctxpath(c) + (f"/@{plan.models[op['m']]['name']}" if op['wm'] else '')
            fl.update(row=(path, sev, msg))
            fn = {'info': ctx.log_info, 'warning': ctx.log_warning, 'error': ctx.log_error}[sev]
            self.call('log', lambda: fn(msg, model))
            ref.log.append((path, sev, msg))
        elif kind == 'annotate':
            name = plan.models[op['m']]['name']
            text = _BAD_LINE.sub('', op['text'])
            fl.update(name=name, desc=text)
            self.call('store_annotation', lambda: ctx.store_annotation(name, text))
            cref['annotations'][name] = text
        elif kind == 'metadata':
            fl.update(meta=op['meta'])
            self.call('store_metadata', lambda: ctx.store_metadata(op['meta']))
            cref['meta'] = op['meta']
        elif kind == 'subctx':
            if len(self.ctxs) >= 3:
                self.skipped.append('subctx: limit')
                fl['kind'] = 'skip'
                return
            name = _clean_name(op['text'], 's')
            path = cref['path'] + (name,)
            if any(x['path'] == path for x in ref.ctx):
                self.skipped.append('subctx: exists')
                fl['kind'] = 'skip'
                return
            fl.update(name=name, path=path)
            sub = self.call('create_subcontext', lambda: ctx.create_subcontext(name))
            self.ctxs.append(sub)
            ref.ctx.append(dict(path=path, names={}, meta=None, annotations={}))
        else:  # pragma: no cover
            raise HarnessError(kind)


def check_keyname(ctx, cref, name, P, call):
    exp = cref['names'][name]
    key = call('retrieve_key', lambda: ctx.retrieve_key(name))
    if str(key) != exp['key']:
        raise Violation(f'{P}:retrieve_key:wrong-key', observed=str(key), expected=exp['key'], detail=f'name {name!r}')
    got = call('retrieve_name', lambda: ctx.retrieve_name(key))
    ok = {n for n, e in cref['names'].items() if e['key'] == exp['key']}
    if got not in ok:
        raise Violation(f'{P}:retrieve_name:wrong-name', observed=got, expected=sorted(ok))


def check_entry(me, ref, c, name, P, run, alt_desc=(), alt_rid=(), what='retrieve'):
    """Entry obtained for a committed name must equal the reference (alternatives: values of the
    operation in flight on the same name/key)."""
    cref = ref.ctx[c]
    exp = cref['names'][name]
    v, d = exp['vd']
    descs = [cref['annotations'][name]] + list(alt_desc)
    got_desc = me.model.description
    if got_desc not in descs:
        raise Violation(f'{P}:{what}:description', observed=got_desc, expected=descs, detail=f'name {name!r}')
    em = base_model(v, d).replace(name=name, description=got_desc)
    df = diff_model(me.model, em)
    if df is not None:
        raise Violation(f'{P}:{what}:model.{df[0]}', observed=df[1], expected=df[2], detail=f'name {name!r}')
    rids = [ref.db[exp['key']]['rid']] + list(alt_rid)
    last = None
    for rid in rids:
        last = diff_results(me.modelfit_results, Pool.results(rid))
        if last is None:
            if rid != exp['stored_rid'] and rid == ref.db[exp['key']]['rid']:
                run.obs.add('alias-sees-results-of-later-store')
            break
    if last is not None:
        raise Violation(f'{P}:{what}:{last[0]}', observed=last[1], expected=last[2], detail=f'name {name!r}; acceptable results ids {rids}')
    exp_log = None if me.modelfit_results is None else me.modelfit_results.log
    if not _same_value(me.log, exp_log) and not (me.log is None and exp_log is None):
        raise Violation(f'{P}:{what}:entry.log', observed=_short(me.log), expected=_short(exp_log))


# ---------------------------------------------------------------------------------------------
# verification against the reference (fault-free: prefix F; after a fault: A1-A4)

def _vcall(clause, fn, detail=''):
    """Call into pharmpy after restart: every exception is a violation of `clause`."""
    try:
        with contextlib.redirect_stdout(io.StringIO()):
            return fn()
    except (Violation, HarnessError, Reject):
        raise
    except Exception as e:
        where = innermost_pharmpy_frame(e)
        if where == 'outside-pharmpy':
            raise HarnessError(f'exception outside pharmpy in {clause}: {type(e).__name__}: {e}')
        raise Violation(f'{clause}:{type(e).__name__}@{where}', detail=f'{detail} {type(e).__name__}: {str(e)[:300]}'.strip())


def verify(run, faulted):
    """Open fresh objects on run.root and compare with run.ref."""
    from pharmpy.workflows import LocalDirectoryContext
    from pharmpy.workflows.hashing import ModelHash
    from pharmpy.workflows.model_database.baseclass import PendingTransactionError

    plan, pool, ref, fl = run.plan, run.pool, run.ref, run.inflight
    obs = run.obs
    A2 = 'A2' if faulted else 'F'
    A4 = 'A4' if faulted else 'F'

    def call(what, fn):
        return _vcall(f'{A2}:{what}', fn)

    top = _vcall(f'{A2}:reopen-context', lambda: LocalDirectoryContext(plan.top, ref=run.root))
    ctxs = [top]
    for cref in ref.ctx[1:]:
        parent = ctxs[[x['path'] for x in ref.ctx].index(cref['path'][:-1])]
        ctxs.append(_vcall(f'{A2}:get_subcontext', lambda: parent.get_subcontext(cref['path'][-1])))

    fl_store = fl is not None and fl['kind'] in STORES
    fl_key = fl['key'] if fl_store else None

    # --- committed names (A2 / F) ------------------------------------------------------------
    for c, cref in enumerate(ref.ctx):
        ctx = ctxs[c]
        for name, exp in cref['names'].items():
            alt_desc, alt_rid = [], []
            same_name = fl is not None and fl.get('c') == c and fl.get('name') == name and fl['kind'] in STORES + ('annotate',)
            if same_name:
                alt_desc.append(fl['desc'])
            if fl_store and exp['key'] == fl_key and fl['rid'] is not None:
                alt_rid.append(fl['rid'])
            blocked = fl_store and exp['key'] == fl_key
            try:
                with contextlib.redirect_stdout(io.StringIO()):
                    me = ctx.retrieve_model_entry(name)
            except Exception as e:
                where = innermost_pharmpy_frame(e)
                if where == 'outside-pharmpy':
                    raise HarnessError(f'retrieve_model_entry: {type(e).__name__}: {e}')
                if blocked and isinstance(e, PendingTransactionError):
                    raise Violation(
                        'A2:committed-entry-blocked-by-interrupted-restore', observed='PendingTransactionError',
                        detail=f'name {name!r} (key {exp["key"]}) was committed earlier; the interrupted operation stored the same model again',
                    )
                raise Violation(f'{A2}:retrieve:{type(e).__name__}@{where}', detail=f'committed name {name!r} in ctx#{c}: {type(e).__name__}: {str(e)[:300]}')
            check_entry(me, ref, c, name, A2, run, alt_desc, alt_rid)
            if not blocked:
                check_keyname(ctx, cref, name, A2, call)
        # annotations stored for names (store_annotation before any store is legal too)
        for name, text in cref['annotations'].items():
            if name in cref['names']:
                continue
            alts = [text] + ([fl['desc']] if fl is not None and fl.get('c') == c and fl.get('name') == name and 'desc' in fl else [])
            got = call('retrieve_annotation', lambda: ctx.retrieve_annotation(name))
            if got not in alts:
                raise Violation(f'{A2}:retrieve_annotation:text', observed=got, expected=alts, detail=f'name {name!r}')
        # metadata
        if cref['meta'] is not None:
            rewriting = fl is not None and fl['kind'] == 'metadata' and fl.get('c') == c
            alts = [cref['meta']] + ([fl['meta']] if rewriting else [])
            try:
                got = ctx.retrieve_metadata()
            except Exception as e:
                if rewriting:  # the item in flight itself (the property text does not name metadata): observation only
                    obs.add(f'inflight-metadata-unreadable:{type(e).__name__}')
                    continue
                raise Violation(f'{A2}:retrieve_metadata:{type(e).__name__}', detail=str(e)[:200])
            if got not in alts:
                raise Violation(f'{A2}:retrieve_metadata:content', observed=got, expected=alts)

    # --- A1: the operation in flight ---------------------------------------------------------
    if fl_store:
        c, name, key = fl['c'], fl['name'], fl['key']
        committed_key = ref.db.get(key)
        # (a) by name, when the name had not been committed before
        if name not in ref.ctx[c]['names'] and c < len(ctxs):
            try:
                with contextlib.redirect_stdout(io.StringIO()):
                    me = ctxs[c].retrieve_model_entry(name)
            except Exception as e:
                obs.add(f'inflight-name:{type(e).__name__}')
                me = None
            if me is not None:
                obs.add('inflight-name:visible')
                v, d = fl['vd']
                descs = [fl['desc']] + ([ref.ctx[c]['annotations'][name]] if name in ref.ctx[c]['annotations'] else [])
                gd = me.model.description
                em = base_model(v, d).replace(name=name, description=gd if gd in descs else fl['desc'])
                df = diff_model(me.model, em)
                if df is not None:
                    raise Violation(f'A1:inflight-by-name:model.{df[0]}', observed=df[1], expected=df[2], detail=f'name {name!r}')
                _a1_results(me, fl, committed_key, 'A1:inflight-by-name')
        # (b) by key, straight from the database
        db = top.model_database
        try:
            with contextlib.redirect_stdout(io.StringIO()):
                me = db.retrieve_model_entry(ModelHash(key))
        except Exception as e:
            obs.add(f'inflight-key:{type(e).__name__}')
            me = None
        if me is not None:
            obs.add('inflight-key:visible')
            v, d = fl['vd']
            df = diff_model(me.model, base_model(v, d), with_name=False)
            if df is not None:
                raise Violation(f'A1:inflight-by-key:model.{df[0]}', observed=df[1], expected=df[2], detail=f'key {key}')
            _a1_results(me, fl, committed_key, 'A1:inflight-by-key')

    # --- A4: the log ---------------------------------------------------------------------------
    check_log(top, ref, fl, A4, obs)

    if not faulted:
        return

    # --- A3: storing every other model still works ----------------------------------------------
    done = set()
    nstored = 0
    for i in range(len(plan.models)):
        key = pool.key(i)
        if key == fl_key or key in done:
            continue
        done.add(key)
        name = plan.models[i]['name']
        shares = fl_store and dataset_hash(*pool.vd(i)) == dataset_hash(*fl['vd'])
        tag = 'A3:store-other-sharing-dataset' if shares else 'A3:store-other'
        entry = pool.entry(i)
        _vcall(tag, lambda: top.store_model_entry(entry), detail=f'model M{i} {name!r}')
        me = _vcall(tag + ':retrieve', lambda: top.retrieve_model_entry(name), detail=f'model M{i} {name!r}')
        v, d = pool.vd(i)
        df = diff_model(me.model, pool.model(i))
        if df is not None:
            raise Violation(f'{tag}:retrieved:model.{df[0]}', observed=df[1], expected=df[2], detail=f'model M{i} {name!r}')
        rid = pool.rid(i)
        want_rid = rid if rid is not None else (ref.db[key]['rid'] if key in ref.db else None)
        dr = diff_results(me.modelfit_results, Pool.results(want_rid))
        if dr is not None:
            raise Violation(f'{tag}:retrieved:{dr[0]}', observed=dr[1], expected=dr[2], detail=f'model M{i} {name!r}')
        nstored += 1
        if shares:
            obs.add('A3:stored-other-sharing-dataset')
    if nstored:
        obs.add('A3:stored-other')

    # --- A3r: retrying the interrupted store itself (same model, same name) ------------------------
    # Either refused with the documented PendingTransactionError, or it succeeds and the entry is
    # then complete: never a partially written entry committed by the retry.
    if fl_store and fl['c'] < len(ctxs):
        c, name, i = fl['c'], fl['name'], fl['m']
        ctx = ctxs[c]
        entry = pool.entry(i)
        fn = {'store': ctx.store_model_entry, 'store_input': ctx.store_input_model_entry, 'store_final': ctx.store_final_model_entry}[fl['kind']]
        try:
            with contextlib.redirect_stdout(io.StringIO()):
                fn(entry)
            refused = False
        except PendingTransactionError:
            refused = True
            obs.add('A3r:retry-refused-pending')
        except Exception as e:
            where = innermost_pharmpy_frame(e)
            if where == 'outside-pharmpy':
                raise HarnessError(f'retry of the interrupted store: {type(e).__name__}: {e}')
            raise Violation(f'A3r:retry-inflight-store:{type(e).__name__}@{where}', detail=f'{fl["kind"]} of M{i} as {name!r}: {type(e).__name__}: {str(e)[:300]}')
        if not refused:
            obs.add('A3r:retry-succeeded')
            me = _vcall('A3r:retry-inflight-store:retrieve', lambda: ctx.retrieve_model_entry(name), detail=f'{fl["kind"]} of M{i} as {name!r} succeeded on retry')
            df = diff_model(me.model, pool.model(i, name=name))
            if df is not None:
                raise Violation(f'A3r:retry-inflight-store:retrieved:model.{df[0]}', observed=df[1], expected=df[2], detail=f'{fl["kind"]} of M{i} as {name!r} succeeded on retry')
            rid = fl['rid'] if fl['rid'] is not None else (ref.db[fl_key]['rid'] if fl_key in ref.db else None)
            dr = diff_results(me.modelfit_results, Pool.results(rid))
            if dr is not None:
                raise Violation(f'A3r:retry-inflight-store:retrieved:{dr[0]}', observed=dr[1], expected=dr[2], detail=f'{fl["kind"]} of M{i} as {name!r} succeeded on retry')

    # --- log append after restart keeps earlier rows (A4) and is itself retrievable (F) ------------
    msg = 'after restart, "ok"'
    _vcall('A4:log-after-restart', lambda: top.log_info(msg))
    check_log(top, ref, fl, 'A4', obs, appended=(ref.ctxpath(0), 'info', msg))


def _a1_results(me, fl, committed_key, clause):
    cands = []
    if fl['rid'] is not None:
        cands.append(fl['rid'])
    if committed_key is not None:
        cands.append(committed_key['rid'])
    elif fl['rid'] is None:
        cands.append(None)
    last = None
    for rid in cands:
        last = diff_results(me.modelfit_results, Pool.results(rid))
        if last is None:
            return
    raise Violation(f'{clause}:{last[0]}', observed=last[1], expected=last[2], detail=f'partially written entry visible; acceptable results ids {cands}')


def check_log(top, ref, fl, P, obs, appended=None):
    import pandas as pd

    want = list(ref.log)
    try:
        with contextlib.redirect_stdout(io.StringIO()):
            df = top.retrieve_log()
        rows = [(r.path, r.severity, r.message) for r in df.itertuples(index=False)]
        times = list(df['time'])
    except Exception as e:
        if not want and appended is None:
            obs.add(f'log-unreadable-without-committed-rows:{type(e).__name__}')
            return
        if not want:
            raise Violation(f'F:log-after-restart:retrieve_log:{type(e).__name__}', detail=f'no rows committed before the fault, one appended after restart; {type(e).__name__}: {str(e)[:300]}')
        raise Violation(f'{P}:retrieve_log:{type(e).__name__}', detail=f'{len(want)} committed rows; {type(e).__name__}: {str(e)[:300]}')

    def same(a, b):
        return type(a) is type(b) and a == b

    for j, w in enumerate(want):
        if j >= len(rows):
            raise Violation(f'{P}:log:committed-row-missing', observed=rows, expected=want)
        for col, a, b in zip(('path', 'severity', 'message'), rows[j], w):
            if not same(a, b):
                kind = 'reinterpreted' if not isinstance(a, str) else 'changed'
                raise Violation(f'{P}:log:{col}-{kind}', observed=_short(a), expected=b, detail=f'row {j} of {len(want)}')
        if not isinstance(times[j], str) or pd.isna(pd.to_datetime(times[j], errors='coerce')):
            raise Violation(f'{P}:log:time-unreadable', observed=_short(times[j]), detail=f'row {j}')
    extra = rows[len(want):]
    allowed = []
    if fl is not None and fl['kind'] == 'log' and 'row' in fl:
        allowed.append(fl['row'])
    if appended is not None:
        allowed.append(appended)
    k = 0
    for row in extra:
        while k < len(allowed) and not all(same(a, b) for a, b in zip(row, allowed[k])):
            k += 1
        if k >= len(allowed):
            clause = 'A1:log:partial-or-foreign-row-visible' if P != 'F' else 'F:log:foreign-row'
            raise Violation(clause, observed=_short(extra), expected=allowed)
        k += 1
    if appended is not None and (not extra or not all(same(a, b) for a, b in zip(extra[-1], appended))):
        raise Violation('F:log-after-restart:appended-row-not-retrievable', observed=_short(extra), expected=appended)


# ---------------------------------------------------------------------------------------------
# running a case

_COUNTER = [0]


def _scratch():
    _COUNTER[0] += 1
    os.makedirs(SCRATCH, exist_ok=True)
    root = os.path.join(SCRATCH, f'{os.getpid()}-c16-{_COUNTER[0]}')
    shutil.rmtree(root, ignore_errors=True)
    os.makedirs(root)
    return root


def _execute(plan, root, **fskw):
    """-> (Run, FaultFS); interposition is removed on every path out of here."""
    faultfs.assert_clean()
    fs = FaultFS(root, **fskw)
    run = Run(plan, root, fs)
    try:
        with fs:
            run.execute()
    finally:
        faultfs.restore_all()
    return run, fs


_FF = {}  # workload key -> dict(status, n, trace, ranges, violation)


def fault_free(plan):
    """Fault-free execution + full verification; cached per workload (pure function of it)."""
    hit = _FF.get(plan.wkey)
    if hit is not None:
        return hit
    root = _scratch()
    res = dict(status='ok', n=0, trace=[], steps=[], violation=None, obs=(), skipped=[])
    try:
        try:
            run, fs = _execute(plan, root, mode='none')
            leaked = fs.close_leftovers()
            if leaked:
                run.obs.add('leaked-open-files')
            res.update(n=fs.n, trace=fs.trace, steps=run.steps, skipped=run.skipped)
            verify(run, faulted=False)
            res['obs'] = tuple(sorted(run.obs))
            res['nstores'] = run.ref.nstores
        except Violation as v:
            res.update(status='violation', violation=v)
    finally:
        faultfs.restore_all()
        shutil.rmtree(root, ignore_errors=True)
    if len(_FF) > 4000:
        _FF.clear()
    _FF[plan.wkey] = res
    return res


def _norm_path(p):
    p = re.sub(r'\.hash/[A-Za-z0-9_-]{43}', '.hash/H', p)
    p = re.sub(r'[A-Za-z0-9_-]{43}', 'K', p)
    p = re.sub(r'data\d+\.', 'dataN.', p)
    p = re.sub(r'subcontexts/[^/]+', 'subcontexts/S', p)
    p = re.sub(r'models/[^/]+$', 'models/NAME', p)
    p = re.sub(r'^[^/]+', 'TOP', p)
    return p


def locate(plan, ff, k):
    """Where does numbered operation k fall: (step index, step kind, first, last, trace entry)."""
    ent = ff['trace'][k - 1]
    for i, s in enumerate(ff['steps']):
        if s['a'] <= k <= s['b']:
            return i, s['kind'], s['a'], s['b'], ent
    raise HarnessError(f'operation {k} not inside any step: {ff["steps"]}')


def run_case(spec):
    plan = Plan(spec)
    ff = fault_free(plan)
    if plan.k == 0:
        if ff['status'] == 'violation':
            v = ff['violation']
            raise Violation(v.clause, observed=v.observed, expected=v.expected, detail=f'{v.detail} | {plan.render()}')
        classes = ['fault-free'] + [f'obs:{o}' for o in ff['obs']] + sorted({f'op:{o["kind"]}' for o in plan.ops})
        classes += _text_classes(plan)
        return CaseInfo(nontrivial=False, classes=tuple(classes), render=plan.render())
    if ff['status'] == 'violation':
        raise Reject('fault-free run of this workload already violates ' + ff['violation'].clause[:40])
    if plan.k > ff['n']:
        raise Reject('k beyond the number of operations')
    i, kind, a, b, ent = locate(plan, ff, plan.k)
    is_write = ent['op'] in ('write', 'os.write')
    cut = plan.cut if is_write else 0
    root = _scratch()
    try:
        run, fs = _execute(plan, root, crash_at=plan.k, cut=cut, mode=plan.mode)
        if not fs.fired:
            raise HarnessError(f'fault at operation {plan.k} never fired (N={ff["n"]}, reached {fs.n})')
        got = [(e['op'], e['path']) for e in fs.trace[: plan.k]]
        want = [(e['op'], e['path']) for e in ff['trace'][: plan.k]]
        if got != want:
            raise HarnessError(f'operation trace is not deterministic: {got[-3:]} vs {want[-3:]}')
        if plan.mode == 'crash':
            if run.status != 'crashed':
                raise HarnessError(f'SimulatedCrash was swallowed by the code under test (status {run.status})')
            fs.kill()
            run.ctxs = []
            faultfs.release_pharmpy_locks()
        else:
            if run.status == 'done':
                run.obs.add('injected-error-swallowed')
            leaked = fs.close_leftovers()
            if leaked:
                run.obs.add('leaked-open-files-after-error')
        verify(run, faulted=True)
        if plan.mode == 'enospc':
            import pharmpy.internals.fs.lock as lock

            if lock._fd_ref._refs or lock._thread_level_lock_ref._refs:
                run.obs.add('lock-table-not-empty-after-error')
                faultfs.release_pharmpy_locks()
    finally:
        faultfs.restore_all()
        if plan.mode == 'crash':
            faultfs.release_pharmpy_locks()
        shutil.rmtree(root, ignore_errors=True)
    torn = fs.fault.get('torn', 0) if fs.fault else 0
    inside = kind in STORES and a < plan.k <= b
    # committed model entries before the step in flight
    nontrivial = bool(inside and run.ref.nstores >= 1)
    classes = [f'mode:{plan.mode}', f'inflight:{kind}', f'at:{ent["op"]}:{_norm_path(ent["path"])}'] + sorted(_prefix_classes(plan))
    if torn:
        classes.append('torn-write')
    if inside:
        classes.append('inside-store')
    classes += [f'obs:{o}' for o in sorted(run.obs)]
    render = dict(workload=plan.render(), fault=f'{plan.mode} at op {plan.k}/{ff["n"]} = {ent["op"]} {_norm_path(ent["path"])}' + (f' torn after {torn}/{ent.get("size")}' if is_write else ''), step=f'{i}:{kind}')
    return CaseInfo(nontrivial=nontrivial, classes=tuple(classes), render=render, key=spec_hash([plan.wkey, plan.mode, plan.k, cut]))


def _text_classes(plan):
    out = set()
    for o in plan.ops:
        if o['kind'] == 'log':
            t = o['text']
            out.add('msg:' + _text_class(t))
    for m in plan.models:
        out.add('name:' + _text_class(m['name']))
        out.add('desc:' + _text_class(m['desc']))
    out.add('top:' + _text_class(plan.top))
    out |= _prefix_classes(plan)
    return sorted(out)


def _prefix_classes(plan):
    """'prefix-pair': two names of the pool, one a proper prefix of the other;
    'prefix-pair:short-after-long': ... and, in one context, the shorter one gets stored/annotated after
    the longer one (what overwrites a neighbour when annotation lines are matched by prefix)."""
    out = set()
    names = sorted({m['name'] for m in plan.models} | {'input', 'final'})
    pairs = {(a, b) for a in names for b in names if a != b and b.startswith(a)}
    pool_pairs = {(a, b) for a, b in pairs if a not in ('input', 'final') or b not in ('input', 'final')}
    if any(a in {m['name'] for m in plan.models} and b in {m['name'] for m in plan.models} for a, b in pool_pairs):
        out.add('prefix-pair')
    seen = {}  # context index (as given) -> names written so far
    nctx = 1
    for o in plan.ops:
        c = o['c'] % nctx
        if o['kind'] == 'subctx' and nctx < 3:
            nctx += 1
            continue
        if o['kind'] in STORES or o['kind'] == 'annotate':
            nm = {'store_input': 'input', 'store_final': 'final'}.get(o['kind'], plan.models[o['m']]['name'])
            if any((nm, longer) in pairs for longer in seen.get(c, ())):
                out.add('prefix-pair:short-after-long')
            seen.setdefault(c, set()).add(nm)
    return out


def _na_like(t):
    return t in _PANDAS_NA or _numeric_like(t)


_PANDAS_NA = {'', '#N/A', '#N/A N/A', '#NA', '-1.#IND', '-1.#QNAN', '-NaN', '-nan', '1.#IND', '1.#QNAN', '<NA>', 'N/A', 'NA', 'NULL', 'NaN', 'None', 'n/a', 'nan', 'null'}


def _numeric_like(t):
    s = t.strip()
    if s.lower() in ('true', 'false'):
        return True
    try:
        float(s)
        return True
    except ValueError:
        return False


def _text_class(t):
    if _na_like(t):
        return 'na-or-numeric-like'
    if '\n' in t or '\r' in t:
        return 'newline'
    if ',' in t:
        return 'comma'
    if '"' in t:
        return 'quote'
    if ' ' in t:
        return 'space'
    if any(ord(ch) > 255 for ch in t):
        return 'non-latin1'
    if any(ord(ch) > 127 for ch in t):
        return 'non-ascii'
    return 'plain'


# ---------------------------------------------------------------------------------------------
# strategies

_SAFE = st.tuples(st.sampled_from('abcdXYZ'), st.text(alphabet='abcdXYZ0189_-', min_size=0, max_size=5)).map(''.join)
_SPECIAL = [
    'NA', '', 'nan', 'null', 'None', 'N/A', '1', '1.5', 'True', 'a,b', 'say "hi"', '"', "it's", 'a b', ' lead', 'trail ',
    'über', 'Ж日本', 'a\nb', 'a\r\nb', 'tab\there', 'a;b', '#c', '-', 'ctx,2020,info,"x"', 'run1', 'x' * 30, 'é', '%s', '\\', "a'b",
]
# name families in which one name is a proper prefix of another (run1 / run10, base / base_iiv, final / final2)
_FAMILY = st.tuples(st.shared(_SAFE, key='c16-name-stem'), st.sampled_from(['', '', '', '1', '1', '10', '_iiv', '2'])).map(''.join)
_FAMILY = st.one_of(_FAMILY, _FAMILY, _FAMILY, _FAMILY, st.sampled_from(['final2', 'input_1', 'inputs', 'finalized']))
_TEXT = st.one_of(_SAFE, st.sampled_from(_SPECIAL), st.sampled_from(_SPECIAL), st.text(alphabet=list('ab1 ,"\'\n;#ü日.-_\\'), max_size=8))
_BENIGN = st.one_of(_SAFE, st.sampled_from(['a,b', 'say "hi"', 'two words', 'line1\nline2', 'über', 'x;y']))
_META = st.dictionaries(st.sampled_from(['a', 'tool', 'n', 'ü']), st.one_of(st.integers(-5, 5), st.booleans(), st.none(), st.sampled_from(['x', 'a,b', '"q"', '', 'NA']), st.lists(st.integers(0, 3), max_size=2), st.floats(-2, 2, allow_nan=False).map(lambda x: round(x, 3))), max_size=3)


def _workload(text, names, benign):
    model = st.fixed_dictionaries(
        dict(v=st.integers(0, NV - 1), d=st.sampled_from([0, 0, 0, 1, 2]), r=st.integers(0, NR - 1), name=names, desc=text, rt=text, as_model=st.booleans())
    )
    # op codes index OPS; stores dominate fault workloads, log operations are as frequent as stores in text workloads
    codes = [0, 0, 0, 1, 1, 2, 3, 4, 5, 6, 7, 8] if benign else [0, 0, 0, 1, 1, 1, 1, 2, 3, 4, 5, 6, 6, 7, 8]
    op = st.fixed_dictionaries(
        dict(op=st.sampled_from(codes), m=st.sampled_from([0, 1, 2]), c=st.sampled_from([0, 0, 0, 1, 2]), t=text, sev=st.integers(0, 2), wm=st.booleans(), meta=_META)
    )
    return st.fixed_dictionaries(
        dict(
            top=names if not benign else st.just('ctx'), models=st.lists(model, min_size=2, max_size=3), ops=st.lists(op, min_size=2 if benign else 3, max_size=4),
            pfx=st.sampled_from([True, True, False]),
        )
    )


WORKLOAD_TEXT = _workload(_TEXT, st.one_of(_FAMILY, _FAMILY, _FAMILY, _SAFE, _TEXT, _TEXT), benign=False)
WORKLOAD_BENIGN = _workload(_BENIGN, st.one_of(_SAFE, _FAMILY, _FAMILY), benign=True)


def _faithful_strategy():
    return WORKLOAD_TEXT.map(lambda w: dict(w, k=0, cut=0, mode='crash'))


def _sampled_strategy():
    return st.tuples(WORKLOAD_BENIGN, st.integers(1, 400), st.integers(0, 1000), st.sampled_from(['crash', 'crash', 'enospc'])).map(
        lambda t: dict(t[0], k=t[1], cut=t[2], mode=t[3], kmod=True)
    )


def run_fault(spec):
    """Enumerated specs carry the exact k; sampled ones (kmod) have k reduced modulo N."""
    if isinstance(spec, dict) and spec.get('kmod'):
        plan = Plan(spec)
        ff = fault_free(plan)
        if ff['status'] == 'violation':
            raise Reject('fault-free run of this workload already violates ' + ff['violation'].clause[:40])
        if ff['n'] == 0:
            raise Reject('no operations')
        spec = dict(spec, k=1 + (max(1, plan.k) - 1) % ff['n'], kmod=False)
    return run_case(spec)


# ---------------------------------------------------------------------------------------------
# enumeration of every crash point of a set of workloads


def _m(v, d, r, name, desc='d', rt='w', as_model=False):
    return dict(v=v, d=d, r=r, name=name, desc=desc, rt=rt, as_model=as_model)


def _o(op, m=0, c=0, t='', sev=0, wm=False, meta=None):
    return dict(op=OPS.index(op), m=m, c=c, t=t, sev=sev, wm=wm, meta=meta or {})


CANONICAL = [
    # A and B share dataset d0, C has its own dataset and results
    dict(top='ctx', models=[_m(0, 0, 0, 'run10', 'first, model'), _m(1, 0, 1, 'run1', 'second "model"'), _m(2, 1, 2, 'run2', 'third', 'warn, "x"\nnext')],
         ops=[_o('store', 0), _o('store', 1), _o('store', 2), _o('retrieve', 0)]),
    # what every tool does: input, log, final = same model again (now with results)
    dict(top='ctx', models=[_m(0, 0, 0, 'base', 'input model', as_model=True), _m(0, 0, 2, 'base', 'input model', 'note'), _m(3, 0, 1, 'cand', 'candidate')],
         ops=[_o('store_input', 0), _o('log', 0, t='starting tool, "quoted"\nsecond line'), _o('store', 2), _o('store_final', 1)]),
    # sub-context, metadata, annotation, logging with model
    dict(top='ctx', models=[_m(1, 2, 1, 'mod_a', 'a'), _m(2, 2, 0, 'mod_b', 'b')],
         ops=[_o('subctx', t='modelfit'), _o('store', 0, c=1), _o('metadata', c=1, meta={'tool': 'modelfit', 'n': 2}), _o('log', 0, c=1, t='fitted', sev=1, wm=True)]),
    dict(top='ctx', models=[_m(0, 1, 1, 'm1', 'x'), _m(1, 1, 0, 'm2', 'y'), _m(2, 1, 2, 'm3', 'z')],
         ops=[_o('store', 0), _o('annotate', 0, t='better, description'), _o('store', 1), _o('keyname', 0)]),
    dict(top='ctx', models=[_m(0, 0, 1, 'm1', 'x'), _m(0, 0, 2, 'm1', 'x2', 'again'), _m(3, 2, 0, 'other', 'o')],
         ops=[_o('store', 0), _o('log', t='one'), _o('store', 1), _o('log', t='two', sev=2)]),
]


def _seed():
    try:
        return int(os.environ.get('VERIF_SEED', '1') or '1')
    except ValueError:
        return 1


def sample_workloads(n, salt):
    """n distinct generated workloads containing a store, deterministic in VERIF_SEED."""
    import hashlib

    import hypothesis
    from hypothesis import HealthCheck, Phase, given, settings

    out, seen = [], set()
    seed = int(hashlib.sha256(f'{_seed()}:C16:{salt}'.encode()).hexdigest()[:8], 16)

    @hypothesis.seed(seed)
    @settings(max_examples=max(20, n * 6), database=None, deadline=None, derandomize=False, phases=[Phase.generate], suppress_health_check=list(HealthCheck))
    @given(WORKLOAD_BENIGN)
    def collect(w):
        if len(out) >= n:
            return
        plan = Plan(w)
        kinds = [o['kind'] for o in plan.ops]
        if len(kinds) < 3 or sum(k in STORES for k in kinds) < 2 or plan.wkey in seen:
            return
        seen.add(plan.wkey)
        out.append(w)

    collect()
    return out


N_ENUM = dict(quick=(5, 1), thorough=(5, 40))  # (canonical, generated)
CUTS = dict(quick=[500], thorough=[1, 500, 999])


def _workloads(tier):
    nc, ng = N_ENUM[tier]
    return CANONICAL[:nc] + sample_workloads(ng, 'enum')


def _ff_or_none(w):
    try:
        return fault_free(Plan(w))
    except Reject:
        return None


def enum_crash(tier):
    for w in _workloads(tier):
        ff = _ff_or_none(w)
        yield dict(w, k=0, cut=0, mode='crash')
        if ff is None or ff['status'] != 'ok':
            continue
        for k in range(1, ff['n'] + 1):
            ent = ff['trace'][k - 1]
            yield dict(w, k=k, cut=0, mode='crash')
            if ent['op'] in ('write', 'os.write') and ent.get('size', 0) > 1:
                for c in CUTS[tier]:
                    yield dict(w, k=k, cut=c, mode='crash')


def enum_faults(tier):
    yield from enum_crash(tier)
    yield from enum_enospc(tier)


def enum_enospc(tier):
    for w in _workloads(tier):
        ff = _ff_or_none(w)
        if ff is None or ff['status'] != 'ok':
            continue
        for k in range(1, ff['n'] + 1):
            ent = ff['trace'][k - 1]
            yield dict(w, k=k, cut=CUTS[tier][0] if ent['op'] in ('write', 'os.write') else 0, mode='enospc')


# ---------------------------------------------------------------------------------------------
# validation of the simulation against a real process death


def run_sim_vs_kill(spec):
    plan = Plan(spec)
    ff = fault_free(plan)
    if ff['status'] != 'ok' or ff['n'] == 0:
        raise Reject('no fault-free trace')
    k = 1 + (max(1, plan.k) - 1) % ff['n']
    ent = ff['trace'][k - 1]
    cut = plan.cut if ent['op'] in ('write', 'os.write') else 0
    root_a, root_b = _scratch(), _scratch()
    try:
        run, fs = _execute(plan, root_a, crash_at=k, cut=cut, mode='crash')
        fs.kill()
        faultfs.release_pharmpy_locks()
        tree_a = faultfs.snapshot_tree(root_a)
        pid = os.fork()
        if pid == 0:  # child: die for real at the same operation
            code = 3
            try:
                devnull = os.open(os.devnull, os.O_WRONLY)
                os.dup2(devnull, 1)
                os.dup2(devnull, 2)
                _execute(plan, root_b, crash_at=k, cut=cut, mode='exit')
                code = 4  # fault did not fire
            except BaseException:
                code = 5
            finally:
                os._exit(code)
        _, status = os.waitpid(pid, 0)
        if not os.WIFEXITED(status) or os.WEXITSTATUS(status) != faultfs.EXIT_CODE:
            raise HarnessError(f'child did not die at the fault point: status {status}')
        tree_b = faultfs.snapshot_tree(root_b)
    finally:
        faultfs.restore_all()
        faultfs.release_pharmpy_locks()
        shutil.rmtree(root_a, ignore_errors=True)
        shutil.rmtree(root_b, ignore_errors=True)

    def mask(tree):
        out = {}
        for p, v in tree.items():
            if v[0] == 'file' and p.endswith('log.csv'):
                v = ('file', re.sub(rb'\d', b'D', v[1]))
            out[p] = v
        return out

    ta, tb = mask(tree_a), mask(tree_b)
    if ta != tb:
        diff = sorted(p for p in set(ta) | set(tb) if ta.get(p) != tb.get(p))
        raise HarnessError(f'simulated crash and real process death leave different trees at op {k} ({ent}): {diff[:5]}')
    return CaseInfo(nontrivial=False, classes=('sim==kill', f'at:{ent["op"]}'), render=dict(workload=plan.render(), k=k))


def enum_sim_vs_kill(tier):
    ws = _workloads(tier)[: 5 if tier == 'quick' else 40]
    for wi, w in enumerate(ws):
        ff = _ff_or_none(w)
        if ff is None or ff['status'] != 'ok':
            continue
        n = ff['n']
        step = max(1, n // (4 if tier == 'quick' else 12))
        for k in range(1 + wi % step, n + 1, step):
            yield dict(w, k=k, cut=500, mode='crash')


def extra_coverage(results):
    n = 0
    for r in results:
        if r.get('sub') == 'sim_vs_kill':
            n += r.get('classes', {}).get('sim==kill', 0)
    return dict(traces_validated_against_impl=n)


# ---------------------------------------------------------------------------------------------
# known-finding predicates (on the spec)


def _loc(spec):
    """(plan, ff, step, trace entry at k, bytes of a torn prefix) for a fault spec, else None."""
    plan = Plan(spec)
    if plan.k == 0:
        return None
    ff = fault_free(plan)
    if ff['status'] != 'ok' or ff['n'] == 0:
        return None
    k = plan.k if not spec.get('kmod') else 1 + (plan.k - 1) % ff['n']
    if not (1 <= k <= ff['n']):
        return None
    i, kind, a, b, ent = locate(plan, ff, k)
    torn = (ent.get('size', 0) * plan.cut) // 1000 if ent['op'] in ('write', 'os.write') else 0
    return plan, ff, ff['steps'][i], ent, torn, k


def _base(ent):
    return ent['path'].rsplit('/', 1)[-1]


def p_fault_in_dataset_publish(spec):
    """Fault inside a store after `.datasets/.hash/<dataset hash>/` was created and before its
    `dataN.datainfo` is completely written."""
    loc = _loc(spec)
    if loc is None:
        return False
    plan, ff, step, ent, torn, k = loc
    if step['kind'] not in STORES:
        return False
    n_h = n_di = None
    for e in ff['trace'][step['a'] - 1 : step['b']]:
        if e['op'] == 'mkdir' and re.search(r'\.datasets/\.hash/[^/]+$', e['path']):
            n_h = e['n']
        if e['op'] == 'write' and e['path'].endswith('.datainfo'):
            n_di = e['n']
    return n_h is not None and n_di is not None and n_h < k <= n_di


def p_fault_in_annotations_write(spec):
    """Fault at the (single) write that rewrites a context's `annotations` file."""
    loc = _loc(spec)
    if loc is None:
        return False
    plan, ff, step, ent, torn, k = loc
    return ent['op'] == 'write' and _base(ent) == 'annotations'


def p_torn_log_row(spec):
    """Torn write (non-empty proper prefix) of a row appended to log.csv."""
    loc = _loc(spec)
    if loc is None:
        return False
    plan, ff, step, ent, torn, k = loc
    return ent['op'] == 'write' and _base(ent) == 'log.csv' and step['kind'] == 'log' and 0 < torn


def p_fault_in_log_header(spec):
    """Fault at the write of the log.csv header while the top-level context is created."""
    loc = _loc(spec)
    if loc is None:
        return False
    plan, ff, step, ent, torn, k = loc
    return ent['op'] == 'write' and _base(ent) == 'log.csv' and step['kind'] == 'open'


def p_interrupted_restore_of_committed_key(spec):
    """Fault inside the transaction (PENDING exists) of a store whose model (key) had already been
    committed earlier in the workload."""
    loc = _loc(spec)
    if loc is None:
        return False
    plan, ff, step, ent, torn, k = loc
    if step['kind'] not in STORES or not step['recommit']:
        return False
    n_p = n_u = None
    for e in ff['trace'][step['a'] - 1 : step['b']]:
        if _base(e) == 'PENDING':
            if e['op'] == 'os.open':
                n_p = e['n']
            elif e['op'] == 'unlink':
                n_u = e['n']
    return n_p is not None and n_u is not None and n_p < k <= n_u


def _log_ops(plan):
    """(path, message) of every log operation of the plan as the reference would record it."""
    names = [plan.top]
    out = []
    paths = [(plan.top,)]
    for o in plan.ops:
        c = o['c'] % len(paths)
        if o['kind'] == 'subctx' and len(paths) < 3:
            p = paths[c] + (_clean_name(o['text'], 's'),)
            if p not in paths:
                paths.append(p)
        elif o['kind'] == 'log':
            path = '/'.join(paths[c]) + (f"/@{plan.models[o['m']]['name']}" if o['wm'] else '')
            out.append((path, o['text']))
    return out


def p_log_field_na_or_numeric_like(spec):
    """A logged message, or the context path it is logged under, is a string pandas.read_csv turns
    into NaN / a number / a bool ('', 'NA', 'null', '1', '1.5', 'True', ...)."""
    plan = Plan(spec)
    return any(_na_like(m) or _na_like(p) for p, m in _log_ops(plan))


def p_log_path_needs_quoting(spec):
    """A context name or model name used in a log path contains a comma, a quote or a blank at the ends."""
    plan = Plan(spec)
    return any(',' in p or '"' in p for p, m in _log_ops(plan))


def p_name_has_space(spec):
    """A model name that is stored/annotated contains a blank (the annotations file is `name<blank>text`)."""
    plan = Plan(spec)
    used = {o['m'] for o in plan.ops if o['kind'] in ('store', 'annotate')}
    return any(' ' in plan.models[i]['name'] for i in used)


KNOWN_PREDICATES = {
    'fault_in_dataset_publish': p_fault_in_dataset_publish,
    'fault_in_annotations_write': p_fault_in_annotations_write,
    'torn_log_row': p_torn_log_row,
    'fault_in_log_header': p_fault_in_log_header,
    'interrupted_restore_of_committed_key': p_interrupted_restore_of_committed_key,
    'log_field_na_or_numeric_like': p_log_field_na_or_numeric_like,
    'log_path_needs_quoting': p_log_path_needs_quoting,
    'name_has_space': p_name_has_space,
}


# ---------------------------------------------------------------------------------------------
# self-check of the engine and of the fixed-point assumptions


def selfcheck():
    import pathlib

    import pandas as pd

    faultfs.assert_clean()
    root = _scratch()
    try:
        r = pathlib.Path(root)

        def work():
            (r / 'a' / 'b').mkdir(parents=True, exist_ok=True)
            (r / 'a' / 'b').mkdir(parents=True, exist_ok=True)
            (r / 'a' / 't').touch()
            (r / 'a' / 't').touch(exist_ok=True)
            with open(r / 'a' / 'f.txt', 'w') as f:
                f.write('hello ')
                f.write('world\n')
            with open(r / 'a' / 'f.txt', 'a') as f:
                f.write('more\n')
            with open(r / 'a' / 'j.json', 'w') as f:
                json.dump({'a': [1, 2, 3]}, f, indent=2)
            pd.DataFrame({'x': [1, 2]}).to_csv(r / 'a' / 'd.csv', index=False)
            (r / 'a' / 'ln').symlink_to('b')
            (r / 'a' / 't').unlink()

        with FaultFS(root) as fs:
            work()
        ops = [(e['op'], e['path']) for e in fs.trace]
        want = [('mkdir', 'a'), ('mkdir', 'a/b'), ('os.open', 'a/t'), ('open:w', 'a/f.txt'), ('write', 'a/f.txt'), ('write', 'a/f.txt'),
                ('open:w', 'a/j.json'), ('write', 'a/j.json'), ('open:w', 'a/d.csv'), ('write', 'a/d.csv'), ('symlink', 'a/ln'), ('unlink', 'a/t')]
        if ops != want:
            raise HarnessError(f'faultfs numbering changed: {ops}')
        if not faultfs.is_clean():
            raise HarnessError('faultfs did not restore the real functions')
        full = faultfs.snapshot_tree(root)
        for k in range(1, len(want) + 1):
            shutil.rmtree(root)
            os.makedirs(root)
            fs = FaultFS(root, crash_at=k, cut=500, mode='crash')
            died = repaired = False
            try:
                with fs:
                    try:
                        work()
                    except SimulatedCrash:
                        died = True
                        try:
                            (r / 'zzz').mkdir()
                            repaired = True
                        except SimulatedCrash:
                            pass
                        try:
                            open(r / 'zzz.txt', 'w')
                            repaired = True
                        except SimulatedCrash:
                            pass
            finally:
                fs.kill()
                faultfs.restore_all()
            if not died or repaired or not faultfs.is_clean():
                raise HarnessError(f'faultfs crash semantics broken at k={k}: died={died} repaired={repaired}')
            tree = faultfs.snapshot_tree(root)
            for p, v in tree.items():
                if p not in full:
                    if p == 'a/t':
                        continue
                    raise HarnessError(f'crash state has a path the full run has not: {p}')
                if v[0] == 'file' and p != 'a/t' and not full[p][1].startswith(v[1]):
                    raise HarnessError(f'crash state of {p} is not a prefix')
    finally:
        faultfs.restore_all()
        shutil.rmtree(root, ignore_errors=True)

    # models are fixed points of write/read outside the database
    from pharmpy.modeling import read_model, write_csv, write_model
    from pharmpy.workflows.results import read_results

    root = _scratch()
    try:
        for v in range(NV):
            for d in range(ND):
                m = base_model(v, d).replace(name=f'm{v}{d}', description='some, "text"')
                sub = os.path.join(root, f'{v}{d}')
                os.makedirs(sub)
                m2 = write_csv(m, path=os.path.join(sub, 'data.csv'), force=True)
                write_model(m2, os.path.join(sub, f'm{v}{d}.ctl'), force=True)
                back = read_model(os.path.join(sub, f'm{v}{d}.ctl'))
                df = diff_model(back, m)
                if df is not None:
                    raise HarnessError(f'base model v{v} d{d} is not a fixed point of write_model/read_model: {df}')
        keys = {model_key(v, d) for v in range(NV) for d in range(ND)}
        if len(keys) != NV * ND:
            raise HarnessError('model variants do not have distinct keys')
        if len({dataset_hash(v, 0) for v in range(NV)}) != 1 or len({dataset_hash(0, d) for d in range(ND)}) != ND:
            raise HarnessError('dataset hashes are not as assumed (shared per dataset)')
        for rt in ['w', 'NA', '', 'a,"b"\nc', 'Ж日']:
            for r in (1, 2):
                for v in range(NV):
                    res = make_results(v, r, rt)
                    back = read_results(res.to_json())
                    dr = diff_results(back, res)
                    if dr is not None:
                        raise HarnessError(f'results kind {r} (v{v}) are not a fixed point of to_json/read_results: {dr}')
                if diff_results(make_results(1, r, rt), make_results(2, r, rt)) is None:
                    raise HarnessError('results comparator cannot tell different results apart')
        if diff_model(base_model(0, 0), base_model(1, 0), with_name=False) is None or diff_model(base_model(0, 0), base_model(0, 1), with_name=False) is None:
            raise HarnessError('model comparator cannot tell variants apart')
    finally:
        shutil.rmtree(root, ignore_errors=True)


# ---------------------------------------------------------------------------------------------
# two concurrent writers of one annotations file under an owned schedule


def _conc_plan(spec):
    if not isinstance(spec, dict):
        raise Reject('spec is not a dict')

    def pairs(x, fb, n):
        out = []
        for j, it in enumerate((x or [])[:n]):
            if isinstance(it, (list, tuple)) and len(it) == 2:
                out.append((_clean_name(it[0], fb).replace(' ', '_'), _BAD_LINE.sub('', str(it[1]))[:30]))
        return out

    pre = pairs(spec.get('pre'), 'p', 2)
    w = [pairs(spec.get('w0'), 'a', 2), pairs(spec.get('w1'), 'b', 2)]
    for t in (0, 1):
        if not w[t]:
            w[t] = [('ab'[t] + '_name', 'text ' + 'ab'[t])]
    sched = [int(x) % 2 for x in (spec.get('sched') or [])[:48] if isinstance(x, (int, bool))]
    return pre, w, sched


def run_concurrent_annotations(spec):
    """Two threads, each with its own LocalDirectoryContext on the same directory, call
    store_annotation; the schedule (which thread performs the next intercepted file-system call or
    lock attempt) is owned by the spec.  Afterwards every annotation whose store returned must be
    retrievable: for a name written by one writer its last text, for a name written by both the last
    text of either; annotations present before stay unless overwritten."""
    import threading

    import pharmpy.internals.fs.lock as lockmod
    import pharmpy.workflows.contexts.local_directory as cmod
    import pharmpy.workflows.model_database.local_directory as dmod
    from pharmpy.workflows import LocalDirectoryContext

    pre, w, sched = _conc_plan(spec)
    root = _scratch()
    faultfs.assert_clean()
    gate = faultfs.TurnGate(sched, timeout=10.0, max_steps=200)
    saved = (cmod.path_lock, dmod.path_lock)
    errors = {}
    outcome = None
    threads = []
    try:
        top = LocalDirectoryContext('ctx', ref=root)
        for name, text in pre:
            top.store_annotation(name, text)
        ctxs = [LocalDirectoryContext('ctx', ref=root) for _ in (0, 1)]
        coop = faultfs.cooperative_path_lock(gate, lockmod.path_lock, lockmod.AcquiringLockWouldBlockError)
        cmod.path_lock = coop
        dmod.path_lock = coop

        def worker(tid):
            try:
                gate.register(tid)
                for name, text in w[tid]:
                    ctxs[tid].store_annotation(name, text)
            except BaseException as e:  # noqa
                errors[tid] = e
            finally:
                gate.finish(tid)

        fs = FaultFS(root, mode='none', gate=gate)
        try:
            with fs:
                for tid in (0, 1):
                    gate.expect(tid)
                    th = threading.Thread(target=worker, args=(tid,), daemon=True, name=f'c16-writer-{tid}')
                    threads.append(th)
                    th.start()
                try:
                    outcome = gate.run()
                except faultfs.GateTimeout as e:
                    outcome = f'timeout: {e}'
                gate.release_all()
                for th in threads:
                    th.join(10.0)
        finally:
            gate.release_all()
            faultfs.restore_all()
        if any(th.is_alive() for th in threads):
            outcome = 'timeout: worker still running'
        if outcome != 'done':
            kind = 'deadlock' if outcome == 'deadlock' else 'timeout'
            return CaseInfo(nontrivial=False, classes=(f'inconclusive:{kind}',), render=dict(pre=pre, w0=w[0], w1=w[1], outcome=outcome))
        fs.close_leftovers()
        for tid, e in sorted(errors.items()):
            if isinstance(e, Exception):
                where = innermost_pharmpy_frame(e)
                raise Violation(
                    f'C:store_annotation:{type(e).__name__}@{where}', detail=f'writer {tid} storing {w[tid]}: {type(e).__name__}: {str(e)[:200]}; schedule {[t for t, _, _ in gate.trace]}'
                )
            raise HarnessError(f'writer {tid}: {type(e).__name__}: {e}')
        # expected final annotations
        exp = {}
        for name, text in pre:
            exp[name] = {text}
        last = [dict(), dict()]
        for tid in (0, 1):
            for name, text in w[tid]:
                last[tid][name] = text
        for name in set(last[0]) | set(last[1]):
            exp[name] = {last[t][name] for t in (0, 1) if name in last[t]}
        cmod.path_lock, dmod.path_lock = saved
        fresh = LocalDirectoryContext('ctx', ref=root)
        order = [t for t, _, _ in gate.trace]
        for name, texts in sorted(exp.items()):
            try:
                got = fresh.retrieve_annotation(name)
            except KeyError:
                raise Violation('C:annotation-lost', observed=None, expected=sorted(texts), detail=f'name {name!r}; writers {w}; pre {pre}; schedule {order}')
            if got not in texts:
                raise Violation('C:annotation-wrong', observed=got, expected=sorted(texts), detail=f'name {name!r}; writers {w}; pre {pre}; schedule {order}')
    finally:
        cmod.path_lock, dmod.path_lock = saved
        gate.release_all()
        faultfs.restore_all()
        if not any(th.is_alive() for th in threads):
            pass
        shutil.rmtree(root, ignore_errors=True)
    switches = sum(1 for a, b in zip(order, order[1:]) if a != b)
    first_done = max(i for i, t in enumerate(order) if t == order[0]) < min(i for i, t in enumerate(order) if t != order[0]) if len(set(order)) == 2 else True
    classes = ['interleaved' if not first_done else 'serial', f'switches:{min(switches, 6)}']
    if gate.contended:
        classes.append('lock-contention')
    if set(last[0]) & set(last[1]):
        classes.append('same-name-both-writers')
    return CaseInfo(nontrivial=False, classes=tuple(classes), render=dict(pre=pre, w0=w[0], w1=w[1], schedule=order, steps=len(order)))


def _conc_strategy():
    nm = st.one_of(_SAFE, _FAMILY)
    pair = st.tuples(nm, _BENIGN.filter(lambda t: '\n' not in t)).map(list)
    return st.fixed_dictionaries(
        dict(pre=st.lists(pair, max_size=2), w0=st.lists(pair, min_size=1, max_size=2), w1=st.lists(pair, min_size=1, max_size=2), sched=st.lists(st.integers(0, 1), min_size=10, max_size=40))
    )


SUBCHECKS = [
    SubCheck('faithful', _faithful_strategy, run_case, quick=224, thorough=860, quick_time=400.0, describe='fault-free workloads with adversarial text'),
    SubCheck(
        'faults', _sampled_strategy, run_fault, quick=64, thorough=240, enumerate=enum_faults, quick_time=600.0, thorough_time=3000.0,
        describe='every operation k of the enumerated workloads in mode crash (+ torn writes) and enospc; plus generated workloads with a sampled fault point',
    ),
    SubCheck('concurrent_annotations', _conc_strategy, run_concurrent_annotations, quick=160, thorough=620, describe='two writers of one annotations file, schedule owned at file-system-call granularity'),
    SubCheck('sim_vs_kill', None, run_sim_vs_kill, quick=0, thorough=0, enumerate=enum_sim_vs_kill, describe='simulation vs forked child killed by os._exit'),
]
