"""C13 -- Datasets are read by NM-TRAN's rules and survive a write/read cycle.

lexical    data-file texts -> read_nonmem_dataset(StringIO) == reference reader E9 (pv/ref/nmdata.py)
model      the same through a complete model ($INPUT/$DATA in a control stream + data file in a
           scratch directory, read_model, Model.dataset), $PRED and $PK models
roundtrip  numeric DataFrame -> model -> write_model -> read_model -> equal dataset

The reference reader is written from the text of docs/NONMEM.rst; it has three outcomes
(value, documented ERROR, unspecified).  Unspecified cases are rejected, never asserted.

Clause ids: <sub>:<kind> or <sub>[<scenario>]:<kind> where kind is one of
  values / row-count / column-names / id-dtype      read but different from the reference
  refused-but-readable                               DatasetError although the rules give a value
  accepted-but-documented-error:<rule>               read although the rules say ERROR
                                                     (rule: blank-line, space-before-tab, illegal-char,
                                                     item-too-long, filter-non-numeric, bad-synonym)
  internal-error:<Type>@<frame>                      anything but DatasetError
and scenario is the first entry of SCENARIOS present in the case (each one is a recognised
defect scenario with a predicate of the same name in KNOWN_PREDICATES).
"""

from __future__ import annotations

import io
import math
import os
import shutil
import struct
import warnings

from ..core import VERIF_DIR, CaseInfo, HarnessError, Reject, SubCheck, Violation, innermost_pharmpy_frame, spec_hash
from ..gen import gen_data as G
from ..ref import nmdata

PROPERTY = 'C13'
LEVEL = 'exploration'
RULE = (
    'Data files of 1-8 lines over 1-6 $INPUT columns built only from lexical forms docs/NONMEM.rst defines: items '
    '(digits, decimals, E/e and D/d exponents, short forms 2-1/2+1, lone +/-, ".", empty, 23/24/25 character items, '
    'text) joined by comma / blank / TAB separators with optional blanks, leading/trailing blanks and commas, comment '
    'lines for IGNORE=c/@/default #, header line, rows shorter and longer than $INPUT, DROP/SKIP/synonym entries, '
    'NULL=c, up to 3 IGNORE or 1 ACCEPT conditions with every operator spelling, and injected documented errors '
    '(blank line, blank before TAB, non-numeric item, 25 characters). Non-trivial = (>=2 separator kinds or a NULL '
    'item or a Fortran form) and ($INPUT length != file width or a DROP or a filter). Round trip: frames of 1-30 '
    'columns x 1-8 rows of ints / floats (denormals, -0.0, NaN as missing); non-trivial = a non-integral float and >=2 '
    'columns, or a model history with an IGNORE/ACCEPT list that would remove records of the new dataset (written by '
    'write_model alone or by write_csv + write_model). The missing data token -99 is put into (filtered) columns of about half '
    'the files. Distinct = hash of (file text, options) resp. of the spec.'
)
ASSUMPTIONS = [
    'the meaning of a data file is what docs/NONMEM.rst states; forms the text leaves open (row starting with a TAB, '
    'empty item between comma and TAB, several ACCEPT conditions, filters on NULL items, TIME/DATE/II columns, '
    "'nan'/'inf' items, CR LF, lines starting with @ under IGNORE=@, reused ID numbers) are not generated / not judged",
    'decimal text -> double conversion is correctly rounded on both sides (Python float)',
    "the item '-99' (pharmpy's missing data token) is not a data value; integer -99 is excluded from round-trip frames",
    'column names of a read dataset follow the docstring of parse_column_info (synonym used, anonymous drops _DROPn)',
    '$PK models: "individuals without observations are removed" is taken from the code comment in parse_dataset; '
    'observation = MDV==0, else EVID==0, else AMT==0',
    'values of DROPped columns are not compared (only their presence and name)',
]

SCRATCH = os.path.join(VERIF_DIR, '.scratch', 'c13')


def _bits(x):
    return struct.pack('<d', float(x))


def _same(a, b):
    if a != a and b != b:
        return True
    return _bits(a) == _bits(b)


def _dataset_error():
    from pharmpy.model import DatasetError

    return DatasetError


# ----------------------------------------------------------------------------------------
# diagnosis of scenario classes (used for specific clause ids and known-finding predicates)


def _ref_rows(b):
    try:
        return nmdata.scan(b.text, b.ic)
    except (nmdata.DataError, nmdata.Unspecified):
        return None


SCENARIOS = [
    # in priority order; the first one present is put into the clause id
    'ignore-char-regex-special',  # IGNORE=c with c in ^ \\ : regular expression built without escaping
    'blank-line',  # the file has an empty / blank-only line (documented ERROR)
    'comment-last-line-no-newline',  # last line is a comment line and has no newline
    'short-first-row',  # first data row has fewer items than a later row needs (within $INPUT)
    'numeric-value-leading-zero',  # numeric comparison value written with a leading zero (01)
    'signed-value-on-emptied-frame',  # numeric comparison with a signed value after all rows were removed
    'signed-D-exponent',  # item with explicit mantissa sign and D/d exponent in a parsed column
]


def _flt(fs):
    return [(f['col'], f['op'], f['value']) for f in fs]


def scenario(b):
    """Names of the special scenarios present in a built case (pure function of the text/options)."""
    out = set()
    if b.ic in ('^', '\\'):
        out.add('ignore-char-regex-special')
    lines = b.text.split('\n')
    if not b.text.endswith('\n') and lines:
        try:
            if nmdata.is_comment(lines[-1], b.ic):
                out.add('comment-last-line-no-newline')
        except nmdata.Unspecified:
            pass
    try:
        nmdata.data_lines(b.text, b.ic)
    except nmdata.DataError as e:
        if e.reason == 'blank-line':
            out.add('blank-line')
    except nmdata.Unspecified:
        pass
    for f in b.ignore or b.accept:
        v = f['value'].lstrip('+-')
        if f['op'] in G.NUM_OPS and len(v) > 1 and v[0] == '0' and v[1].isdigit():
            out.add('numeric-value-leading-zero')
    rows = _ref_rows(b)
    if rows:
        n = len(b.names)
        # items of the first data row, not counting an empty item after a trailing TAB
        first_line = nmdata.data_lines(b.text, b.ic)[0]
        its0, del0 = nmdata.split_row_delims(first_line)
        w0 = len(its0) - (1 if len(its0) > 1 and its0[-1] == '' and del0[-1] == 't' else 0)

        def needed(r):  # trailing NULL items are equivalent to padding
            k = min(len(r), n)
            while k > 0 and nmdata.is_null(r[k - 1]):
                k -= 1
            return k

        if any(needed(r) > w0 for r in rows[1:]):
            out.add('short-first-row')
        numcols = {b.names.index(b.alias[f['col']]) for f in (b.ignore or b.accept) if f['op'] in G.NUM_OPS}
        for r in rows:
            for j, it in enumerate(r[:n]):
                if (not b.drop[j] or j in numcols) and len(it) > 2 and it[0] in '+-' and ('D' in it or 'd' in it):
                    out.add('signed-D-exponent')
        # numeric comparison with a signed value evaluated on a frame without rows
        cur = rows
        try:
            for f in b.ignore:
                if not cur and f['op'] in G.NUM_OPS and f['value'][:1] in ('+', '-'):
                    out.add('signed-value-on-emptied-frame')
                cur = [r for r in cur if not nmdata.filter_matches((f['col'], f['op'], f['value']), r, b.names, b.alias)]
        except (nmdata.DataError, nmdata.Unspecified):
            pass
    return [s for s in SCENARIOS if s in out]


def _clause(sub, scen, kind):
    return f'{sub}[{scen[0]}]:{kind}' if scen else f'{sub}:{kind}'


def _expected(b, pk=False):
    """-> ('ok', names, drop, rows) | ('error', reason)"""
    if b.input_error:
        return ('error', b.input_error)
    try:
        names, drop, rows = nmdata.read(b.text, b.entries, b.ic, b.null, ignore=_flt(b.ignore), accept=_flt(b.accept))
        if pk:
            rows = nmdata.remove_individuals_without_observations(names, drop, rows)
    except nmdata.DataError as e:
        return ('error', e.reason)
    except nmdata.Unspecified as u:
        raise Reject(f'unspecified: {str(u)[:40]}')
    return ('ok', names, drop, rows)


def _classes(b, exp):
    cl = []
    text = b.text
    rows = _ref_rows(b)
    kinds = set()
    for ln in text.split('\n'):
        try:
            if nmdata.is_comment(ln, b.ic):
                cl.append('comment-line')
                continue
        except nmdata.Unspecified:
            continue
        s = ln.strip(' ')
        if ',' in s:
            kinds.add(',')
        if '\t' in s:
            kinds.add('t')
        if ' ' in s.replace(', ', ',').replace(' ,', ','):
            kinds.add(' ')
    lex = False
    if len(kinds) >= 2:
        cl.append('sep>=2kinds')
        lex = True
    if rows:
        flat = [it for r in rows for it in r]
        if any(nmdata.is_null(it) for it in flat):
            cl.append('null-item')
            lex = True
        if any(('D' in it or 'd' in it or it in '+-' or (len(it) > 1 and ('+' in it[1:] or '-' in it[1:]) and 'E' not in it.upper())) for it in flat if it and all(c in nmdata._ALLOWED for c in it)):
            cl.append('fortran-form')
            lex = True
        n = len(b.names)
        if any(len(r) < n for r in rows):
            cl.append('short-row')
        if any(len(r) > n for r in rows):
            cl.append('long-row')
        if any(len(it) in (23, 24) for it in flat):
            cl.append('len23-24')
        if any(len(it) >= 25 for it in flat):
            cl.append('len>=25')
    struct_ = False
    if rows and any(len(r) != len(b.names) for r in rows):
        struct_ = True
    if any(b.drop):
        cl.append('drop')
        struct_ = True
    if b.ignore or b.accept:
        cl.append('accept' if b.accept else f'ignore{len(b.ignore)}')
        struct_ = True
        ops = {f['op'] for f in (b.ignore or b.accept)}
        if ops & set(G.TEXT_OPS):
            cl.append('text-op')
        if ops & set(G.NUM_OPS):
            cl.append('num-op')
        if any(b.drop[b.names.index(b.alias[f['col']])] for f in (b.ignore or b.accept)):
            cl.append('filter-on-dropped')
    if any(v not in (None, 'DROP', 'SKIP') for _, v in b.entries):
        cl.append('synonym')
    if getattr(b, 'missing', None):
        cl.append('missing-token')
        fcols = {f['j']: f['op'] for f in (b.ignore or b.accept) if f['op'] in G.NUM_OPS}
        if any(j in fcols for j in b.missing):
            cl.append('missing-token-in-numeric-filter-col')
        if any(j in fcols and fcols[j] not in ('.EQN.', '.NEN.') for j in b.missing):
            cl.append('missing-token-ordered-op')
    if b.null is not None:
        cl.append('NULL=c')
    if b.ic is not None:
        cl.append('IGNORE=@' if b.ic == '@' else 'IGNORE=c')
    if not text.endswith('\n'):
        cl.append('no-final-newline')
    if exp[0] == 'error':
        cl.append('expect-error:' + exp[1])
    else:
        cl.append('expect-ok')
        if rows is not None and len(exp[3]) < len(rows):
            cl.append('rows-filtered')
        if len(exp[3]) == 0:
            cl.append('empty-result')
    cl.extend('scenario:' + s for s in scenario(b))
    return cl, (lex and struct_)


def _compare(sub, b, exp, got_kind, got, scen):
    """got_kind: 'ok' (got = DataFrame) | 'error' (got = message) ."""
    if exp[0] == 'error':
        if got_kind == 'error':
            return
        raise Violation(
            _clause(sub, scen, f'accepted-but-documented-error:{exp[1]}'),
            observed=got.values.tolist()[:6],
            expected=f'DatasetError ({exp[1]})',
            detail=_describe(b),
        )
    _, names, drop, rows = exp
    if got_kind == 'error':
        raise Violation(_clause(sub, scen, 'refused-but-readable'), observed=got[:200], expected=rows[:6], detail=_describe(b))
    df = got
    if list(df.columns) != list(names):
        raise Violation(_clause(sub, scen, 'column-names'), observed=[str(c) for c in df.columns], expected=names, detail=_describe(b))
    if len(df) != len(rows):
        raise Violation(_clause(sub, scen, 'row-count'), observed=len(df), expected=len(rows), detail=_describe(b) + f' got={df.values.tolist()[:8]} exp={rows[:8]}')
    for j, (nm, d) in enumerate(zip(names, drop)):
        if d:
            continue
        col = df[nm].tolist()
        for i, (g, r) in enumerate(zip(col, rows)):
            e = r[j]
            try:
                ok = _same(g, e)
            except (TypeError, ValueError):
                ok = False
            if not ok:
                raise Violation(
                    _clause(sub, scen, 'values'), observed=repr(g), expected=repr(e), detail=f'row {i} column {nm}; ' + _describe(b) + f' got={df.values.tolist()[:8]} exp={rows[:8]}'
                )
    if 'ID' in names and not drop[names.index('ID')] and len(rows):
        if df['ID'].dtype.kind != 'i':
            raise Violation(_clause(sub, scen, 'id-dtype'), observed=str(df['ID'].dtype), expected='int', detail=_describe(b))


def _describe(b):
    opts = dict(input=G.input_text(b.entries), ic=b.ic, null=b.null)
    if b.ignore:
        opts['ignore'] = [G.filter_text(f, True) for f in b.ignore]
    if b.accept:
        opts['accept'] = [G.filter_text(f, True) for f in b.accept]
    return f'text={b.text!r} {opts}'


def _null_arg(null):
    # what DataRecord.null_value hands to read_nonmem_dataset
    if null is None or null in '+-':
        return 0
    return float(null)


# ----------------------------------------------------------------------------------------
# sub-check 1: lexical


def run_lexical(spec):
    from pharmpy.model.external.nonmem.dataset import read_nonmem_dataset

    DatasetError = _dataset_error()
    b = G.build(spec, 'lexical')
    if b.input_error:
        raise Reject('$INPUT error: model sub-check only')
    exp = _expected(b)
    classes, nontrivial = _classes(b, exp)
    scen = scenario(b)
    kw = dict(colnames=list(b.names), drop=list(b.drop), ignore_character=b.ic, null_value=_null_arg(b.null))
    # read_nonmem_dataset gets the filters after parse_dataset replaced synonyms by column names
    if b.ignore:
        kw['ignore'] = [G.filter_text(dict(f, col=b.alias[f['col']]), True) for f in b.ignore]
    if b.accept:
        kw['accept'] = [G.filter_text(dict(f, col=b.alias[f['col']]), True) for f in b.accept]
    with warnings.catch_warnings():
        warnings.simplefilter('ignore')
        try:
            df = read_nonmem_dataset(io.StringIO(b.text), **kw)
            got_kind, got = 'ok', df
        except DatasetError as e:
            got_kind, got = 'error', f'DatasetError: {e}'
        except Exception as e:  # noqa
            where = innermost_pharmpy_frame(e)
            if where == 'outside-pharmpy':
                raise
            raise Violation(_clause('lexical', scen, f'internal-error:{type(e).__name__}@{where}'), detail=f'{type(e).__name__}: {str(e)[:300]}; ' + _describe(b))
    _compare('lexical', b, exp, got_kind, got, scen)
    return CaseInfo(nontrivial=nontrivial, classes=tuple(classes), key=spec_hash([b.text, kw]), render=dict(text=b.text, **{k: v for k, v in kw.items()}))


# ----------------------------------------------------------------------------------------
# sub-check 2: through a model

PRED_BODY = '$PRED\nY = THETA(1) + ETA(1) + EPS(1)\n$THETA 1\n'
PK_BODY = '$SUBROUTINE ADVAN1 TRANS2\n$PK\nCL = THETA(1)*EXP(ETA(1))\nV = THETA(2)\nS1 = V\n$ERROR\nY = F + EPS(1)\n$THETA 1\n$THETA 2\n'
TAIL = '$OMEGA 0.1\n$SIGMA 0.1\n$ESTIMATION METHOD=1\n'


def _scratch(spec, what):
    d = os.path.join(SCRATCH, f'{os.getpid()}_{what}_{spec_hash(spec)}')
    shutil.rmtree(d, ignore_errors=True)
    os.makedirs(d)
    return d


def control_stream(b, pk, fname='data.csv'):
    opts = G.data_options(b)
    return f'$PROBLEM c13\n$INPUT {G.input_text(b.entries)}\n$DATA {fname}' + (' ' + opts if opts else '') + '\n' + (PK_BODY if pk else PRED_BODY) + TAIL


def run_model(spec):
    from pharmpy.modeling import read_model

    DatasetError = _dataset_error()
    pk = _pred_mode(spec) == 'pk'
    b = G.build(spec, 'pk' if pk else 'pred')
    if b.ic in ('"', "'", ';', '(', ')', '='):
        raise Reject('ignore character not expressible in $DATA')
    exp = _expected(b, pk=pk)
    classes, nontrivial = _classes(b, exp)
    classes.append('$PK' if pk else '$PRED')
    scen = scenario(b)
    code = control_stream(b, pk)
    d = _scratch(spec, 'm')
    try:
        with open(os.path.join(d, 'data.csv'), 'w', newline='') as f:
            f.write(b.text)
        with open(os.path.join(d, 'run1.mod'), 'w') as f:
            f.write(code)
        with warnings.catch_warnings():
            warnings.simplefilter('ignore')
            try:
                model = read_model(os.path.join(d, 'run1.mod'))
                df = model.dataset
                if df is None:
                    raise Violation('model:no-dataset', detail=code)
                got_kind, got = 'ok', df
            except DatasetError as e:
                got_kind, got = 'error', f'DatasetError: {e}'
            except Violation:
                raise
            except Exception as e:  # noqa
                where = innermost_pharmpy_frame(e)
                if where == 'outside-pharmpy':
                    raise
                raise Violation(_clause('model', scen, f'internal-error:{type(e).__name__}@{where}'), detail=f'{type(e).__name__}: {str(e)[:300]}; code={code!r} ' + _describe(b))
    finally:
        shutil.rmtree(d, ignore_errors=True)
    try:
        _compare('model', b, exp, got_kind, got, scen)
    except Violation as v:
        v.detail = f'code={code!r} ' + (v.detail or '')
        raise
    return CaseInfo(nontrivial=nontrivial, classes=tuple(classes), key=spec_hash([b.text, code]), render=dict(code=code, data=b.text))


# ----------------------------------------------------------------------------------------
# sub-check 3: write / read round trip

RT_INPUTS = ['ID DV', 'ID DV WGT AGE', 'DV', 'ID TIME DV']
RT_DATA = ['none.csv IGNORE=@', 'none.csv', 'none.csv IGNORE=(DV.GT.5)', 'none.csv IGNORE=# NULL=7']


RT_FILTERS = [
    None,
    'IGNORE=({c}.NEN.7777)',
    'ACCEPT=({c}.EQN.7777)',
    'ACCEPT=({c}.EQ.7777)',
    'IGNORE=({c}.NE.7777)',
    'IGNORE=({c}.LT.7000)',
    'ACCEPT=({c}.GT.7000)',
]


def run_roundtrip(spec):
    """History: (hist 0) a model parsed from a string whose data file does not exist, or (hist 1-6)
    a model read from files whose $DATA has an IGNORE/ACCEPT list on column fcol (4 records, 2 kept);
    then the dataset is replaced by the generated frame (mod 0) or by the model's dataset with the
    filtered column rescaled (mod 1) -- on both the old filter would remove records if applied again;
    then (order 0) write_model, (order 1) write_csv to a file + write_model, (order 2) write_csv to a
    directory + write_model; then read_model.  Oracle: dataset read back == the model's dataset."""
    import numpy as np
    import pandas as pd
    from pharmpy.modeling import read_model, read_model_from_string, set_dataset, write_csv, write_model

    DatasetError = _dataset_error()
    names, data = G.build_frame(spec)
    how = spec.get('how', 0) % 3
    sel = int(spec.get('input', 0) or 0)
    hist = int(spec.get('hist', 0) or 0) % len(RT_FILTERS)
    order = int(spec.get('order', 0) or 0) % 3
    mod = int(spec.get('mod', 0) or 0) % 2
    fcands = [n for n in names if n != 'ID']
    if not fcands:
        hist = 0
    cols = {}
    for nm, vals in zip(names, data):
        if all(isinstance(v, int) for v in vals):
            cols[nm] = np.array(vals, dtype='int64')
        else:
            cols[nm] = np.array([float(v) for v in vals], dtype='float64')
    df = pd.DataFrame(cols)
    code = f'$PROBLEM rt\n$INPUT {RT_INPUTS[sel % 4]}\n$DATA {RT_DATA[sel // 4 % 4]}\n' + PRED_BODY + TAIL
    d = _scratch(spec, 'r')
    stage = 'setup'
    try:
        with warnings.catch_warnings():
            warnings.simplefilter('ignore')
            try:
                if hist:
                    fcol = fcands[int(spec.get('fcol', 0) or 0) % len(fcands)]
                    flt = RT_FILTERS[hist].format(c=fcol)
                    os.makedirs(os.path.join(d, 'orig'))
                    lines = [','.join(names)]
                    for r in range(4):
                        lines.append(','.join(str(r // 2 + 1) if nm == 'ID' else (['7777', '5', '7777', '6'][r] if nm == fcol else str(r + 1)) for nm in names))
                    with open(os.path.join(d, 'orig', 'data0.csv'), 'w') as f:
                        f.write('\n'.join(lines) + '\n')
                    code = f'$PROBLEM rt\n$INPUT {" ".join(names)}\n$DATA data0.csv IGNORE=@ {flt}\n' + PRED_BODY + TAIL
                    with open(os.path.join(d, 'orig', 'run0.mod'), 'w') as f:
                        f.write(code)
                    stage = 'initial-read'
                    model = read_model(os.path.join(d, 'orig', 'run0.mod'))
                    if model.dataset is None or model.dataset[fcol].tolist() != [7777.0, 7777.0]:
                        raise Violation('roundtrip:initial-read', observed=None if model.dataset is None else model.dataset.values.tolist(), detail=code)
                    if mod:
                        df = model.dataset.copy()
                        df[fcol] = df[fcol] * 1.25
                        names = [str(c) for c in df.columns]
                        data = [[v if isinstance(v, int) else float(v) for v in df[c].tolist()] for c in df.columns]
                else:
                    model = read_model_from_string(code)
                stage = 'attach'
                if how == 0:
                    model = model.replace(dataset=df)
                elif how == 1:
                    model = set_dataset(model, df)
                else:
                    model = set_dataset(model, df, datatype='nonmem')
                out = os.path.join(d, 'out')
                os.makedirs(out)
                stage = 'write'
                if order == 1:
                    model = write_csv(model, path=os.path.join(out, 'new_data.csv'))
                elif order == 2:
                    model = write_csv(model, path=out)
                path = os.path.join(out, 'run1.mod')
                write_model(model, path)
                stage = 'read-back'
                back = read_model(path)
                got = back.dataset
                written = open(path).read()
                csvs = sorted(f for f in os.listdir(out) if f.endswith('.csv'))
                csv = open(os.path.join(out, csvs[0])).read() if csvs else None
            except Violation:
                raise
            except Exception as e:  # noqa
                where = innermost_pharmpy_frame(e)
                if where == 'outside-pharmpy':
                    raise
                kind = 'refused' if isinstance(e, (DatasetError, ValueError)) else 'internal-error'
                raise Violation(
                    f'roundtrip:{kind}:{stage}:{type(e).__name__}@{where}',
                    detail=f'{type(e).__name__}: {str(e)[:300]}; how={how} hist={hist} order={order} mod={mod} columns={names} frame={df.values.tolist()[:4]}',
                )
    finally:
        shutil.rmtree(d, ignore_errors=True)
    ctx = f'how={how} hist={hist}({RT_FILTERS[hist]}) order={order} mod={mod} $INPUT/$DATA={written.splitlines()[1:3]} csv={csv!r}'
    if got is None:
        raise Violation('roundtrip:no-dataset', detail=ctx)
    if [str(c) for c in got.columns] != names:
        raise Violation('roundtrip:columns', observed=[str(c) for c in got.columns], expected=names, detail=ctx)
    if len(got) != len(df):
        raise Violation('roundtrip:row-count', observed=len(got), expected=len(df), detail=ctx)
    for nm, vals in zip(names, data):
        col = got[nm].tolist()
        for i, (g, e) in enumerate(zip(col, vals)):
            try:
                ok = _same(float(g), float(e))
            except (TypeError, ValueError):
                ok = False
            if not ok:
                raise Violation('roundtrip:values', observed=repr(g), expected=repr(e), detail=f'row {i} column {nm}; ' + ctx)
    classes = [f'how{how}', f'ncols{min(len(names), 30) // 10 * 10}+', f'order{order}', 'hist:filter' if hist else 'hist:none']
    if hist:
        classes.append(f'hist:filter+order{order}')
        classes.append('mod:rescaled' if mod else 'mod:new-frame')
    flat = [v for vals in data for v in vals if isinstance(v, float)]
    if any(v != v for v in flat):
        classes.append('nan')
    if any(v == 0 and math.copysign(1, v) < 0 for v in flat):
        classes.append('negzero')
    if any(0 < abs(v) < 2.2250738585072014e-308 for v in flat):
        classes.append('denormal')
    if any(isinstance(vals[0], int) for vals in data):
        classes.append('intcol')
    if 'ID' in names:
        classes.append('ID')
    nontriv = (len(names) >= 2 and any(v == v and v != int(v) if abs(v) < 1e15 else True for v in flat if v == v)) or bool(hist)
    return CaseInfo(nontrivial=nontriv, classes=tuple(classes), render=dict(columns=names, rows=[list(r) for r in zip(*data)][:3], how=how, history=RT_FILTERS[hist], order=order, mod=mod))


# ----------------------------------------------------------------------------------------
# known-finding predicates (pure functions of the spec)


def _pred_mode(spec):
    return 'pk' if int(spec.get('pk', 0) or 0) % 6 >= 3 else 'pred'


def _scen_pred(name):
    def pred(spec):
        # the same spec is interpreted by the lexical and by the model sub-check (pred / pk
        # layout): true when the scenario is present in an interpretation a sub-check uses
        return any(name in scenario(G.build(spec, m)) for m in ('lexical', _pred_mode(spec)))

    return pred


KNOWN_PREDICATES = {s.replace('-', '_'): _scen_pred(s) for s in SCENARIOS}


# ----------------------------------------------------------------------------------------
# oracle self-check: literal examples taken from the sentences of docs/NONMEM.rst


def selfcheck():
    src = open(nmdata.__file__).read()
    if 'import pharmpy' in src or 'from pharmpy' in src:
        raise HarnessError('reference reader imports pharmpy')
    ent = [('A', None), ('B', None), ('C', None)]

    def rd(text, entries=ent, **kw):
        try:
            return nmdata.read(text, entries, **kw)[2]
        except nmdata.DataError as e:
            return 'E:' + e.reason

    table = [
        ('1,2,3\n', [[1.0, 2.0, 3.0]]),
        ('1 , 2 ,3\n', [[1.0, 2.0, 3.0]]),  # spaces before or after a comma are ignored
        ('1\t 2\t3\n', [[1.0, 2.0, 3.0]]),  # spaces after a TAB are ignored
        ('1 \t2\t3\n', 'E:space-before-tab'),
        ('  1 2   3  \n', [[1.0, 2.0, 3.0]]),  # spaces in the beginning / end of a row are ignored
        (',2,3\n', [[0.0, 2.0, 3.0]]),  # comma in the beginning inserts NULL before
        ('1,2,\n', [[1.0, 2.0, 0.0]]),
        ('1,,3\n1\t\t3\n', [[1.0, 0.0, 3.0], [1.0, 0.0, 3.0]]),
        ('2-1,2+1,1D1\n', [[0.2, 20.0, 10.0]]),
        ('+,-,.\n', [[0.0, 0.0, 0.0]]),
        ('1d-1,-1.5D+2,+2-1\n', [[0.1, -150.0, 0.2]]),
        ('1\n', [[1.0, 0.0, 0.0]]),  # padding
        ('1,2,3,4,5\n', [[1.0, 2.0, 3.0]]),  # surplus columns
        ('1,2\n3,4,5\n', [[1.0, 2.0, 0.0], [3.0, 4.0, 5.0]]),
        ('1,2,3\n\n4,5,6\n', 'E:blank-line'),
        ('1,2,3\n  \n', 'E:blank-line'),
        ('1,2,3\n\t\n', 'E:blank-line'),
        ('1,2,x\n', 'E:illegal-char'),
        ('0' * 24 + ',1,1\n', [[0.0, 1.0, 1.0]]),
        ('0' * 25 + ',1,1\n', 'E:item-too-long'),
        ('#c\n1,2,3\n', [[1.0, 2.0, 3.0]]),
    ]
    for text, want in table:
        got = rd(text)
        if got != want:
            raise HarnessError(f'reference reader self-check failed on {text!r}: {got} != {want}')
    if rd('a,b,c\n 1,2,3\n  x\n#\n', ignore_char='@') != [[1.0, 2.0, 3.0]]:
        raise HarnessError('IGNORE=@')
    if rd('C\n#,2,3\n', ignore_char='C') != 'E:illegal-char':
        raise HarnessError('IGNORE=C')
    if rd('1,.,\n', null='7') != [[1.0, 7.0, 7.0]]:
        raise HarnessError('NULL=7')
    dent = [('A', None), ('B', 'DROP'), ('C', None)]
    if rd('1,abc' + 'x' * 30 + ',3\n', entries=dent) != [[1.0, 'abc' + 'x' * 30, 3.0]]:
        raise HarnessError('DROP')
    t = '1,abc,3\n4,5,6\n7,8,9\n'
    if rd(t, entries=dent, ignore=[('B', '.EQ.', 'abc'), ('B', '.GT.', '6')]) != [[4.0, '5', 6.0]]:
        raise HarnessError('filter order 1')
    if rd(t, entries=dent, ignore=[('B', '.GT.', '6'), ('B', '.EQ.', 'abc')]) != 'E:filter-non-numeric':
        raise HarnessError('filter order 2')
    if rd(t, ignore=[('B', '.EQ.', 'abc')]) != [[4.0, 5.0, 6.0], [7.0, 8.0, 9.0]]:
        raise HarnessError('text row ignored before the item check')
    if rd('1,5,3\n1,5.0,3\n', ignore=[('B', '.EQ.', '5')]) != [[1.0, 5.0, 3.0]]:
        raise HarnessError('text comparison')
    if rd('1,5,3\n1,5.0,3\n', ignore=[('B', '.EQN.', '5')]) != []:
        raise HarnessError('numeric comparison')
    n, dr, _ = nmdata.resolve_input([('ID', None), ('DV', 'CONC'), ('DOSE', 'AMT'), ('DROP', None), ('X', 'SKIP'), ('SKIP', 'Z'), ('SKIP', None)])
    if n != ['ID', 'CONC', 'DOSE', '_DROP1', 'X', 'Z', '_DROP2'] or dr != [False, False, False, True, True, True, True]:
        raise HarnessError('resolve_input')
    os.makedirs(SCRATCH, exist_ok=True)


SUBCHECKS = [
    SubCheck('lexical', lambda: G.DATASPEC, run_lexical, quick=5000, thorough=156000),
    SubCheck('model', lambda: G.DATASPEC, run_model, quick=600, thorough=8000),
    SubCheck('roundtrip', lambda: G.FRAMESPEC, run_roundtrip, quick=400, thorough=5000),
]
