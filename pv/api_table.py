"""API table: model-taking public callables of pharmpy with argument strategies.

    TABLE                 name -> Entry
    EXCLUDED              name -> reason
    names()               sorted list of table names (stable order: index in specs is `k % len(names())`)
    transform_names()     the subset whose purpose is to return a changed model (used for prior steps)
    build(name, model, ints, scratch) -> (fn, kwargs)     total interpretation of the ints
    check_complete()      every model-taking callable of pharmpy.modeling.__all__ is in TABLE or EXCLUDED

Argument strategies are computed from the *current* model (names of parameters, etas, epsilons, columns,
assigned symbols, compartments) and the integers of the spec: `choices[k % len(choices)]`.  Parameters not
mentioned in an entry are derived automatically from the signature: `Literal[...]` annotations and `bool`
are varied (one time out of three when they have a default), everything else keeps its default.
"""

from __future__ import annotations

import ast
import inspect
import os
import re
from dataclasses import dataclass, field
from typing import Any, Callable, Optional

from .core import HarnessError

# ------------------------------------------------------------------------------------------------
# context


class Ctx:
    def __init__(self, model, ints, scratch):
        self.m = model
        self.ints = [int(x) for x in ints if isinstance(x, (int, bool))][:24] or [0]
        self.i = 0
        self.scratch = scratch
        self._cache = {}
        self.notes = []  # labels of what the argument strategies produced (become classes of the case)

    def k(self) -> int:
        v = self.ints[self.i % len(self.ints)]
        self.i += 1
        return abs(v)

    def pick(self, choices, fallback='NOSUCH'):
        choices = list(choices)
        k = self.k()
        if not choices:
            return fallback
        return choices[k % len(choices)]

    def some(self, choices, maxn=3, minn=1, fallback='NOSUCH'):
        choices = list(choices)
        n = minn + self.k() % (maxn - minn + 1)
        if not choices:
            return [fallback]
        start = self.k()
        out = []
        for j in range(n):
            c = choices[(start + j) % len(choices)]
            if c not in out:
                out.append(c)
        return out

    # ---- names read from the current model (pure reads) --------------------------------------
    def _get(self, key, fn):
        if key not in self._cache:
            try:
                self._cache[key] = fn()
            except Exception:
                self._cache[key] = []
        return self._cache[key]

    @property
    def pops(self):
        return self._get('pops', lambda: list(self.m.parameters.names))

    @property
    def thetas(self):
        def f():
            rvp = set(self.m.random_variables.parameter_names)
            return [p for p in self.m.parameters.names if p not in rvp]

        return self._get('thetas', f)

    @property
    def etas(self):
        return self._get('etas', lambda: list(self.m.random_variables.etas.names))

    @property
    def epss(self):
        return self._get('eps', lambda: list(self.m.random_variables.epsilons.names))

    @property
    def cols(self):
        return self._get('cols', lambda: list(self.m.datainfo.names))

    @property
    def covs(self):
        def f():
            std = {'ID', 'TIME', 'AMT', 'DV', 'EVID', 'MDV', 'CMT', 'RATE', 'SS', 'II', 'ADDL', 'DVID', 'FA1', 'FA2', 'ADMID', 'TAD', 'BLQ', 'LLOQ'}
            byt = [c.name for c in self.m.datainfo if c.type == 'covariate']
            rest = [c for c in self.m.datainfo.names if c not in std and c not in byt]
            return byt + rest

        return self._get('covs', f)

    @property
    def assigned(self):
        def f():
            from pharmpy.model import Assignment

            out = []
            for s in self.m.statements:
                if isinstance(s, Assignment):
                    n = str(s.symbol)
                    if n not in out:
                        out.append(n)
            return out

        return self._get('assigned', f)

    @property
    def ipars(self):
        """assigned symbols before the ODE system (candidates for 'individual parameter')"""

        def f():
            from pharmpy.model import Assignment

            out = []
            for s in self.m.statements:
                if not isinstance(s, Assignment):
                    break
                n = str(s.symbol)
                if n not in out:
                    out.append(n)
            return out

        return self._get('ipars', f)

    @property
    def comps(self):
        def f():
            ode = self.m.statements.ode_system
            return list(ode.compartment_names) if ode is not None else []

        return self._get('comps', f)

    @property
    def ids(self):
        def f():
            df = self.m.dataset
            idn = self.m.datainfo.id_column.name
            return [int(x) for x in sorted(set(df[idn].tolist()))]

        return self._get('ids', f)

    @property
    def dvname(self):
        def f():
            return [str(k) for k in self.m.dependent_variables.keys()]

        return self._get('dvs', f)


# ------------------------------------------------------------------------------------------------
# providers


def lit(*choices):
    return lambda c: c.pick(choices)


def const(v):
    return lambda c: v


def opt(p, every=3):
    """None one time out of `every`"""
    return lambda c: None if c.k() % every == 0 else p(c)


def num(*values):
    return lambda c: c.pick(values)


def pop(c):
    return c.pick(c.pops)


def theta(c):
    return c.pick(c.thetas)


def eta(c):
    return c.pick(c.etas)


def eps(c):
    return c.pick(c.epss)


def rv(c):
    return c.pick(c.etas + c.epss)


def col(c):
    return c.pick(c.cols)


def cov(c):
    return c.pick(c.covs, fallback='WGT')


def sym(c):
    return c.pick(c.assigned)


def role_cols(c):
    """columns ordered so that every column role is drawn: one column per datainfo type first (id, idv, dv, dose,
    covariate, mdv/event, dropped, ...), then all columns"""

    def f():
        seen, first = set(), []
        for ci in c.m.datainfo:
            key = (ci.type, bool(ci.drop))
            if key not in seen:
                seen.add(key)
                first.append(ci.name)
        return first + [n for n in c.m.datainfo.names if n not in first]

    return c._get('role_cols', f)


def anycol(c):
    """a column of any role: two draws out of three from the one-per-role list"""
    rc = role_cols(c)
    nroles = len({(ci.type, bool(ci.drop)) for ci in c.m.datainfo}) if rc else 0
    if rc and c.k() % 3:
        return c.pick(rc[: max(1, nroles)])
    return c.pick(c.cols)


def anycols(maxn=3):
    def f(c):
        n = 1 + c.k() % maxn
        out = []
        for _ in range(n):
            x = anycol(c)
            if x not in out:
                out.append(x)
        return out

    return f


def col_value(c, name):
    """a value present in (or near) column `name`"""
    try:
        vals = sorted(set(float(v) for v in c.m.dataset[name].tolist() if v == v))
        if vals:
            return vals[c.k() % len(vals)]
    except Exception:
        pass
    return float(1 + c.k() % 70)


def ipar(c):
    return c.pick(c.ipars)


def comp(c):
    return c.pick(c.comps, fallback='CENTRAL')


def pops(maxn=3):
    return lambda c: c.some(c.pops, maxn)


def etas_(maxn=3):
    return lambda c: c.some(c.etas, maxn)


def epss_(maxn=2):
    return lambda c: c.some(c.epss, maxn)


def ipars_(maxn=3):
    return lambda c: c.some(c.ipars, maxn)


def cols_(maxn=3):
    return lambda c: c.some(c.cols, maxn)


def covs_(maxn=3):
    return lambda c: c.some(c.covs, maxn, fallback='WGT')


def rv_blocks(c):
    """names of the joint distributions (blocks) of the current model"""

    def f():
        return [list(d.names) for d in c.m.random_variables if len(d.names) >= 2]

    return c._get('blocks', f)


def colliding_rv_name(c):
    """-> (name, label): an existing random variable name, preferably a first / middle / last member of a block"""
    blocks = rv_blocks(c)
    if blocks and c.k() % 4:
        b = c.pick(blocks)
        pos = c.k() % 3
        if pos == 0:
            return b[0], 'first-of-block'
        if pos == 1:
            return b[len(b) // 2] if len(b) > 2 else b[0], ('middle-of-block' if len(b) > 2 else 'first-of-block')
        return b[-1], 'last-of-block'
    names = c.etas + c.epss
    if not names:
        return 'ETA_1', 'no-rv'
    return c.pick(names), 'single-rv'


def new_rv_names(count_from=None, default_n=1):
    """strategy for `eta_names`-like arguments: None, fresh names, or names colliding with existing random variables
    (first / middle / last member of a block, a single rv, a repeat inside the list); the number of names follows the
    list chosen for `count_from` when that is known"""

    def f(c):
        n = default_n
        chosen = c._cache.get('arg:' + count_from) if count_from else None
        if isinstance(chosen, (list, tuple)):
            n = max(1, len(chosen))
        elif isinstance(chosen, str):
            n = 1
        k = c.k() % 5
        if k == 0:
            return None
        fresh = [f'ETA_NEW{j + 1}' for j in range(n)]
        if k == 1:
            c.notes.append('new-rv-names:fresh')
            return fresh
        if k == 2 and n >= 2:
            c.notes.append('new-rv-names:repeat-inside-list')
            return [fresh[0]] * n
        name, label = colliding_rv_name(c)
        c.notes.append('new-rv-names:collides-with:' + label)
        at = c.k() % n
        out = list(fresh)
        out[at] = name
        return out

    return f


def remember(key, p):
    """provider wrapper: remembers the produced value so that later parameters can follow it"""

    def f(c):
        v = p(c)
        c._cache['arg:' + key] = v
        return v

    return f


def str_or_list(p_list):
    def f(c):
        v = p_list(c)
        return v[0] if c.k() % 3 == 0 else v

    return f


def pop_map(valuefn, maxn=3):
    def f(c):
        return {n: valuefn(c, n) for n in c.some(c.pops, maxn)}

    return f


def _param(c, n):
    try:
        return c.m.parameters[n]
    except Exception:
        return None


def v_init_within(c, n):
    """a value for parameter n: mostly within bounds, sometimes the bound, sometimes outside"""
    p = _param(c, n)
    k = c.k() % 6
    if p is None:
        return 0.5
    lo, up, init = float(p.lower), float(p.upper), float(p.init)
    if k == 0:
        return init
    if k == 1:
        return init * 1.5 + 0.01
    if k == 2:
        return lo if lo > -1e10 else init - 1.0
    if k == 3:
        return (lo - 1.0) if lo > -1e10 else init / 2
    if k == 4:
        return up if up < 1e10 else init + 1.0
    return init / 2 + 0.001


def v_bool(c, n):
    return bool(c.k() % 2)


def v_lower(c, n):
    p = _param(c, n)
    k = c.k() % 4
    if p is None:
        return 0.0
    init = float(p.init)
    return [init - abs(init) - 1.0, 0.0, init, init + 1.0][k]


def v_upper(c, n):
    p = _param(c, n)
    k = c.k() % 4
    if p is None:
        return 10.0
    init = float(p.init)
    return [init + abs(init) + 1.0, 1000.0, init, init - 1.0][k]


def expr_str(c):
    names = c.assigned + c.thetas + c.covs
    a = c.pick(names, fallback='1')
    b = c.pick(names, fallback='2')
    form = c.k() % 5
    return [a, f'{a}*{b}', f'{a}/({b} + 1)', f'exp({a})', f'{a} + 2*{b} - {a}'][form]


def filter_expr(c):
    def atom():
        cl = anycol(c)
        op = c.pick(['>', '<', '>=', '<=', '==', '!='])
        return f'{cl} {op} {col_value(c, cl)!r}'

    form = c.k() % 5
    if form == 3:
        return f'{atom()} and {atom()}'
    if form == 4:
        return f'{atom()} or not ({atom()})'
    return atom()


def new_name(*stems):
    return lambda c: c.pick(stems)


def newdf(c):
    """the documented forms of set_dataset's path_or_df: a DataFrame derived from the current one (copy, fewer
    rows, extra column, fewer columns, changed dtype) or a path (str / Path) to a csv file written to scratch"""
    df = c.m.dataset
    k = c.k() % 7
    if df is None:
        import pandas as pd

        return pd.DataFrame({'ID': [1, 1, 2], 'TIME': [0.0, 1.0, 0.0], 'DV': [0.0, 1.5, 0.0]})
    if k == 0:
        return df.copy()
    if k == 1:
        return df.iloc[: max(1, len(df) // 2)].copy()
    if k == 2:
        d = df.copy()
        d['NEWCOL'] = 1.0
        return d
    if k == 3:
        return df.iloc[:, : max(2, df.shape[1] - 1)].copy()
    if k == 4:
        d = df.copy()
        nm = d.columns[-1]
        try:
            d[nm] = d[nm].astype('float64')
        except Exception:
            pass
        return d
    os.makedirs(c.scratch, exist_ok=True)
    path = os.path.join(c.scratch, f'data{k}.csv')
    df.to_csv(path, index=False)
    if k == 5:
        return path
    from pathlib import Path

    return Path(path)


# ---- synthetic results ------------------------------------------------------------------------


def s_pe(c):
    import pandas as pd

    m = c.m
    k = c.k() % 3
    vals = {}
    for p in m.parameters:
        v = float(p.init)
        if k == 1 and not p.fix:
            v = v * 1.1
        vals[p.name] = v
    return pd.Series(vals, name='estimates', dtype=float)


def s_cov(c):
    import numpy as np
    import pandas as pd

    names = [p.name for p in c.m.parameters if not p.fix]
    d = np.diag([(0.05 * abs(float(c.m.parameters[n].init)) + 1e-3) ** 2 for n in names])
    return pd.DataFrame(d, index=names, columns=names)


def s_cor(c):
    import numpy as np
    import pandas as pd

    names = [p.name for p in c.m.parameters if not p.fix]
    n = len(names)
    a = np.eye(n)
    if n >= 2:
        a[0, 1] = a[1, 0] = [0.95, 0.2, -0.92][c.k() % 3]
    return pd.DataFrame(a, index=names, columns=names)


def s_se(c):
    import pandas as pd

    names = [p.name for p in c.m.parameters if not p.fix]
    return pd.Series({n: 0.05 * abs(float(c.m.parameters[n].init)) + 1e-3 for n in names}, name='SE', dtype=float)


def s_ie(c):
    import pandas as pd

    ids = c.ids or [1, 2, 3]
    et = c.etas or ['ETA_1']
    data = {e: [0.01 * (((i * 7 + j * 3) % 11) - 5) for i in range(len(ids))] for j, e in enumerate(et)}
    return pd.DataFrame(data, index=pd.Index(ids, name='ID'))


def s_iec(c):
    import numpy as np
    import pandas as pd

    ids = c.ids or [1, 2, 3]
    et = c.etas or ['ETA_1']
    mats = [pd.DataFrame(np.eye(len(et)) * (0.01 + 0.001 * (i % 5)), index=et, columns=et) for i in range(len(ids))]
    return pd.Series(mats, index=pd.Index(ids, name='ID'), dtype=object)


def s_iofv(c):
    import pandas as pd

    ids = c.ids or [1, 2, 3]
    return pd.Series([5.0 + 0.5 * (i % 7) for i in range(len(ids))], index=pd.Index(ids, name='ID'), name='iOFV')


def s_res(c):
    import pandas as pd

    from pharmpy.workflows.log import Log
    from pharmpy.workflows.results import ModelfitResults

    k = c.k()
    pe = s_pe(c)
    se = s_se(c)
    rse = (se / pe.loc[se.index].abs().clip(lower=1e-9)).rename('RSE')
    ok = k % 4 != 3
    return ModelfitResults(
        ofv=-100.0 + (k % 7) * 3.0,
        parameter_estimates=pe,
        covariance_matrix=s_cov(c),
        correlation_matrix=s_cor(c),
        standard_errors=se,
        relative_standard_errors=rse,
        minimization_successful=ok,
        individual_estimates=s_ie(c),
        individual_estimates_covariance=s_iec(c),
        individual_ofv=s_iofv(c),
        termination_cause=None if ok else 'rounding_errors',
        significant_digits=3.4,
        function_evaluations=100,
        estimation_runtime=1.0,
        runtime_total=2.0,
        log_likelihood=50.0,
        covstep_successful=True,
        warnings=[],
        gradients=se * 0.0 + 0.01,
        log=Log(),
        evaluation=pd.Series([False], index=pd.Index([1], name='step')),
        minimization_successful_iterations=pd.Series([ok], index=pd.Index([1], name='step')),
    )


def s_ucp_scale(c):
    from pharmpy.modeling import calculate_ucp_scale

    return calculate_ucp_scale(c.m)


def s_ucps(c):
    return {n: 0.1 for n in c.pops if _param(c, n) is not None and not _param(c, n).fix}


def scratch_file(ext):
    def f(c):
        os.makedirs(c.scratch, exist_ok=True)
        return os.path.join(c.scratch, f'out{c.k() % 3}{ext}')

    return f


def cand_models(c):
    """candidate models for rank_models derived from the current model (also snapshot-checked)"""
    m = c.m
    out = [m.replace(name='cand1')]
    try:
        from pharmpy.model import Parameters

        ps = list(m.parameters)
        if ps:
            out.append(m.replace(name='cand2', parameters=Parameters.create(ps[:-1] + [ps[-1].replace(fix=not ps[-1].fix)])))
    except Exception:
        pass
    return out


def cand_res(c):
    return [s_res(c) for _ in cand_models(c)]


# ------------------------------------------------------------------------------------------------
# entries


@dataclass
class Entry:
    name: str
    fn: Optional[Callable] = None  # resolved lazily from pharmpy.modeling when None
    params: dict = field(default_factory=dict)
    transform: bool = False  # purpose: return a changed model (prior-step alphabet)
    extra: Optional[Callable] = None  # ctx -> dict of additional keyword arguments (**kwargs of the callee)
    first: str = 'model'  # name of the model parameter
    consume: int = 0  # >0: result is an iterator, take that many items
    domain: Optional[Callable] = None  # model -> reason (str) when the call is outside the bounded domain, else None

    def resolve(self):
        if self.fn is None:
            import pharmpy.modeling as pm

            self.fn = getattr(pm, self.name)
        return self.fn


TABLE: dict[str, Entry] = {}


def E(name, /, transform=False, fn=None, extra=None, first='model', consume=0, domain=None, **params):
    TABLE[name] = Entry(name=name, fn=fn, params=params, transform=transform, extra=extra, first=first, consume=consume, domain=domain)


T = dict(transform=True)


def estimates_well_inside_bounds(m):
    """the sampling functions use unbounded rejection sampling: only models whose initial estimates (used as
    synthetic estimates) lie well inside their bounds are sampled"""
    for p in m.parameters:
        init, lo, up = float(p.init), float(p.lower), float(p.upper)
        sd = 0.05 * abs(init) + 1e-3
        if p.fix:
            continue
        if not (init - lo >= 2 * sd and up - init >= 2 * sd):
            return 'estimate close to or outside a bound (rejection sampling may not terminate)'
    if len(m.parameters) > 25:
        return 'more than 25 parameters'
    return None


def sampling_domain(m):
    return estimates_well_inside_bounds(m) or small_linear_odes(m)


def small_linear_odes(m):
    """sympy's dsolve / eigenvalue routines do not terminate in reasonable time on non-linear or large systems:
    those calls are outside the bounded domain (stated in the evidence)"""
    ode = m.statements.ode_system
    if ode is None:
        return None
    if len(ode.compartment_names) > 3:
        return 'more than 3 compartments'
    import sympy

    amounts = {a._sympy_() for a in ode.amounts}
    for eq in ode.eqs:
        rhs = sympy.sympify(eq.rhs._sympy_())
        for a in amounts:
            if rhs.diff(a).has(*amounts):
                return 'non-linear ODE system'
    return None


# ---- pharmpy.modeling: data ----------------------------------------------------------------------
E('add_admid', **T)
E('add_cmt', **T)
E('add_time_after_dose', **T)
E('bin_observations', nbins=num(1, 2, 4, 7))
E('check_dataset')
E('drop_columns', **T, column_names=str_or_list(anycols(3)))
E('drop_dropped_columns', **T)
def _dropped_first(c):
    try:
        dropped = [x.name for x in c.m.datainfo if x.drop]
    except Exception:
        dropped = []
    return c.some(dropped + c.cols if c.k() % 3 else c.cols, 2)


E('undrop_columns', **T, column_names=str_or_list(_dropped_first))
E('expand_additional_doses', **T)
E('filter_dataset', **T, expr=filter_expr)
E('get_admid')
E('get_baselines')
E('get_cmt')
E('get_concentration_parameters_from_data')
E('get_covariate_baselines')
E('get_doses')
E('get_doseid')
E('get_evid')
E('get_ids')
E('get_mdv')
E('get_number_of_individuals')
E('get_number_of_observations')
E('get_number_of_observations_per_individual')
E('get_observations')
E('list_time_varying_covariates')
E('load_dataset', **T)
E('unload_dataset', **T)
LOQ = lambda *nums: (lambda c: c.pick(list(nums) + [anycol(c), 'LLOQ']))  # noqa: E731  float or column name
E('remove_loq_data', **T, lloq=opt(LOQ(0.5, 10.0, 20.0), 3), uloq=opt(LOQ(30.0, 1000.0), 2), blq=opt(anycol, 2), alq=opt(anycol, 2), keep=num(0, 1, 2, None))
E('set_covariates', **T, covariates=anycols(3))
E('set_dataset', **T, path_or_df=newdf)
E('set_dvid', **T, name=anycol)
def _lloq_value(c):
    from pharmpy.basic import Expr

    dv = next((ci.name for ci in c.m.datainfo if ci.type == 'dv'), 'DV')
    return c.pick([0, 0.5, 5, '0', f'{dv}/2', 'LLOQ/2', Expr.symbol(dv) / 2, Expr.integer(1)])


E('set_lloq_data', **T, value=_lloq_value, lloq=opt(LOQ(0.5, 10.0, 20.0), 3), blq=opt(anycol, 2))
def _refs(c):
    """column -> reference value over all column roles; the documented special case (dose columns: only dosing
    records are replaced) is drawn every other time"""
    keys = anycols(3)(c)
    if c.k() % 2 == 0:
        dose = [ci.name for ci in c.m.datainfo if ci.type == 'dose']
        if dose and dose[0] not in keys:
            keys = (keys + dose[:1]) if c.k() % 2 else (dose[:1] + keys)
    return {n: c.pick([float(1 + c.k() % 70), int(1 + c.k() % 9), col_value(c, n)]) for n in keys}


E('set_reference_values', **T, refs=_refs)
E('translate_nmtran_time', **T)
E('omit_data', first='dataset_or_model', consume=2, group=lambda c: c.pick(['ID'] + c.cols[:1]))
E('resample_data', first='dataset_or_model', consume=2, group=const('ID'), resamples=num(1, 2), replace=lambda c: bool(c.k() % 2), stratify=opt(cov, 2))
E('get_unit_of', variable=col)  # model variables: sympy.solve over the unit equations may not terminate (outside the bounded domain)
E('write_csv', **T, path=scratch_file('.csv'), force=const(True))

# ---- parameters -----------------------------------------------------------------------------------
E('add_population_parameter', **T, name=new_name('POP_NEW', 'TVX', 'POP_CL', 'THETA_9'), init=num(0.1, 1.0, 23.0), lower=opt(num(0.0, -1.0, 50.0), 2), upper=opt(num(100.0, 0.05), 2))
E('fix_or_unfix_parameters', **T, parameters=pop_map(v_bool))
E('fix_parameters', **T, parameter_names=str_or_list(pops(3)))
E('fix_parameters_to', **T, inits=pop_map(v_init_within))
E('unfix_parameters', **T, parameter_names=str_or_list(pops(3)))
E('unfix_parameters_to', **T, inits=pop_map(v_init_within))
E('set_initial_estimates', **T, inits=pop_map(v_init_within))
E('set_lower_bounds', **T, bounds=pop_map(v_lower))
E('set_upper_bounds', **T, bounds=pop_map(v_upper))
E('unconstrain_parameters', **T, parameter_names=pops(3))
E('get_omegas')
E('get_sigmas')
E('get_thetas')
E('replace_fixed_thetas', **T)
E('replace_non_random_rvs', **T)
E('calculate_ucp_scale')
E('calculate_parameters_from_ucp', scale=s_ucp_scale, ucps=s_ucps)
E('update_initial_individual_estimates', **T, individual_estimates=s_ie)

# ---- basic / model level -----------------------------------------------------------------------------
E('bump_model_number', **T)
E('convert_model', **T)
E('create_symbol', stem=new_name('ETA', 'TEMP', 'CL', 'POP_CL', 'X'))
E('get_model_code')
E('get_model_covariates')
E('print_model_code')
E('print_model_symbols')
E('remove_unused_parameters_and_rvs', **T)
E('rename_symbols', **T, new_names=lambda c: {n: n + '_R' if c.k() % 4 else c.pick(c.assigned + c.pops) for n in c.some(c.assigned + c.pops + c.etas, 2)})
E('set_description', **T, new_description=new_name('a description', '', 'x;y $PROBLEM'))
E('set_name', **T, new_name=new_name('run2', 'other', 'm-1'))
E('write_model', **T, path=scratch_file('.mod'), force=const(True))
E('cleanup_model', **T)
E('greekify_model', **T)
E('make_declarative', **T)
E('mu_reference_model', **T)
E('simplify_expression', expr=expr_str)
E('is_real', expr=expr_str)
E('is_linearized')
E('get_individual_parameters', dv=opt(num(1, 2), 2))
E('get_parameter_rv', parameter=ipar)
E('get_rv_parameters', rv=rv)
E('get_pd_parameters')
E('get_pk_parameters')
E('has_random_effect', parameter=ipar)
E('get_dv_symbol', dv=opt(lambda c: c.pick([1, 2] + c.dvname), 2))
E('display_odes')
E('calculate_aic', likelihood=num(-100.0, 730.5))
E('calculate_bic', likelihood=num(-100.0, 730.5))

# ---- covariates / allometry -------------------------------------------------------------------------
E('add_allometry', **T, allometric_variable=opt(cov, 4), reference_value=num(70, 1, '70'), parameters=opt(ipars_(3), 2))
E('add_covariate_effect', **T, parameter=ipar, covariate=cov, effect=lit('lin', 'cat', 'cat2', 'piece_lin', 'exp', 'pow', 'theta*(cov - median)'))
E('remove_covariate_effect', **T, parameter=ipar, covariate=cov)
E('has_covariate_effect', parameter=ipar, covariate=cov)
E('get_covariate_effects')

def _occ_col(c):
    """a column with 2..4 distinct values (add_iov creates one eta per category and parameter)"""

    def f():
        df = c.m.dataset
        out = []
        if df is not None:
            for x in c.cols:
                try:
                    n = df[x].nunique()
                except Exception:
                    continue
                if 2 <= n <= 4:
                    out.append(x)
        return out

    return c.pick(c._get('occ', f), fallback='OCC')


# ---- random effects --------------------------------------------------------------------------------------
E('add_iiv', **T, eta_names=new_rv_names('list_of_parameters'), list_of_parameters=remember('list_of_parameters', str_or_list(ipars_(2))), expression=lit('exp', 'add', 'prop', 'log', 're_log'), operation=lit('*', '+'), initial_estimate=num(0.09, 0.3))
def _iov_eta_names(c):
    """add_iov wants one name per eta and category"""
    lp = c._cache.get('arg:list_of_parameters')
    npar = len(lp) if isinstance(lp, (list, tuple)) else 1
    try:
        ncat = int(c.m.dataset[c._cache.get('arg:occ')].nunique())
    except Exception:
        ncat = 2
    return new_rv_names(default_n=max(1, npar * ncat))(c)


E('add_iov', **T, occ=remember('occ', _occ_col), list_of_parameters=remember('list_of_parameters', opt(str_or_list(ipars_(2)), 2)), eta_names=_iov_eta_names)
E('add_pk_iiv', **T, initial_estimate=num(0.09, 0.2))
E('add_pd_iiv', **T, initial_estimate=num(0.09, 0.2))
E('remove_iiv', **T, to_remove=opt(str_or_list(lambda c: c.some(c.etas + c.ipars, 2)), 3))
E('remove_iov', **T, to_remove=opt(str_or_list(etas_(2)), 2))
E('create_joint_distribution', **T, rvs=opt(lambda c: c.some(c.etas, 3, minn=2), 4), individual_estimates=opt(s_ie, 2))
E('split_joint_distribution', **T, rvs=opt(str_or_list(etas_(2)), 2))
E('transform_etas_boxcox', **T, list_of_etas=opt(str_or_list(etas_(2)), 3))
E('transform_etas_john_draper', **T, list_of_etas=opt(str_or_list(etas_(2)), 3))
E('transform_etas_tdist', **T, list_of_etas=opt(str_or_list(etas_(2)), 3))
E('add_individual_parameter', **T, name=new_name('NEWP', 'MAT', 'CL', 'VP1'))

# ---- error model ----------------------------------------------------------------------------------------
DV = opt(lambda c: c.pick([1] + c.dvname + [2]), 2)
E('remove_error_model', **T)
E('set_additive_error_model', **T, dv=DV, data_trans=opt(lit('log(Y)', 'Y'), 2), series_terms=num(2, 1, 3))
E('set_combined_error_model', **T, dv=DV, data_trans=opt(lit('log(Y)', 'Y'), 2))
E('set_proportional_error_model', **T, dv=DV, data_trans=opt(lit('log(Y)', 'Y'), 2))
E('set_dtbs_error_model', **T)
def _ruv_eta_names(c):
    le = c._cache.get('arg:list_of_eps')
    n = len(le) if isinstance(le, (list, tuple)) else (1 if isinstance(le, str) else max(1, len(c.epss)))
    v = new_rv_names(default_n=n)(c)
    if v is not None and c.k() % 2:
        return v[:1]  # same_eta=True uses a single name
    return v


E('set_iiv_on_ruv', **T, dv=DV, list_of_eps=remember('list_of_eps', opt(str_or_list(epss_(2)), 2)), eta_names=_ruv_eta_names)
E('set_power_on_ruv', **T, dv=DV, list_of_eps=opt(str_or_list(epss_(2)), 2), lower_limit=opt(num(0.01, 0.5), 2), ipred=opt(sym, 2))
E('set_time_varying_error_model', **T, cutoff=num(1.0, 2.5, 100.0), idv=lit('TIME', 'TAD', 'WGT'), dv=DV)
E('set_weighted_error_model', **T)
E('use_thetas_for_error_stdev', **T)
E('has_additive_error_model', dv=DV)
E('has_combined_error_model', dv=DV)
E('has_proportional_error_model', dv=DV)
E('has_weighted_error_model')

# ---- estimation steps ---------------------------------------------------------------------------------------
METHODS = ('FO', 'FOCE', 'ITS', 'LAPLACE', 'IMPMAP', 'IMP', 'SAEM', 'BAYES')


def _est_extra(c):
    k = c.k() % 5
    return [{}, {'interaction': True}, {'maximum_evaluations': 9999}, {'tool_options': {'NITER': 100}}, {'auto': True, 'niter': 10}][k]


E('add_estimation_step', **T, method=lit(*METHODS), idx=opt(num(0, 1, -1, 5), 2), extra=_est_extra)
E('set_estimation_step', **T, method=lit(*METHODS), idx=num(0, 0, -1, 1, 3), extra=_est_extra)
E('remove_estimation_step', **T, idx=num(0, -1, 1, 3))
E('append_estimation_step_options', **T, tool_options=lambda c: c.pick([{'SADDLE_RESET': 1}, {'NITER': 200, 'ISAMPLE': 50}, {}]), idx=num(0, -1, 2))
E('add_parameter_uncertainty_step', **T)
E('remove_parameter_uncertainty_step', **T)
E('set_evaluation_step', **T, idx=num(-1, 0, 2))
E('set_simulation', **T, n=num(1, 3), seed=num(64206, 1))
E('add_predictions', **T, pred=lambda c: c.some(['PRED', 'IPRED', 'CIPREDI', 'EPRED', 'NOSUCHPRED'], 2))
E('add_residuals', **T, res=lambda c: c.some(['RES', 'CWRES', 'IRES', 'NPDE', 'NOSUCHRES'], 2))
E('remove_predictions', **T, to_remove=opt(lambda c: c.some(['PRED', 'IPRED', 'CIPREDI'], 2), 2))
E('remove_residuals', **T, to_remove=opt(lambda c: c.some(['RES', 'CWRES'], 2), 2))
E('add_derivative', **T, with_respect_to=opt(lambda c: c.pick([c.pick(c.etas + c.epss), c.some(c.etas + c.epss, 2), [c.some(c.etas, 2)]]), 3))
E('remove_derivative', **T, with_respect_to=opt(lambda c: c.pick([c.pick(c.etas + c.epss), c.some(c.etas + c.epss, 2)]), 2))
E('set_ode_solver', **T)

# ---- ODE / structural ----------------------------------------------------------------------------------------------
for _n in (
    'add_lag_time', 'remove_lag_time', 'set_first_order_absorption', 'set_first_order_elimination', 'set_instantaneous_absorption',
    'set_michaelis_menten_elimination', 'set_mixed_mm_fo_elimination', 'set_seq_zo_fo_absorption', 'set_zero_order_absorption',
    'set_zero_order_elimination', 'remove_bioavailability',
):
    E(_n, **T)
E('solve_ode_system', **T, domain=small_linear_odes)
E('add_bioavailability', **T)
E('add_peripheral_compartment', **T, name=opt(comp, 2))
E('remove_peripheral_compartment', **T, name=opt(comp, 2))
E('set_peripheral_compartments', **T, n=num(0, 1, 2, 3), name=opt(comp, 2))
E('set_transit_compartments', **T, n=num(0, 1, 2, 4))
E('add_metabolite', **T, drug_dvid=num(1, 1, 2))
E('add_effect_compartment', **T)
E('add_indirect_effect', **T)
E('set_direct_effect', **T)
E('set_baseline_effect', **T, expr=lit('const'))
E('set_tmdd', **T, type=lit('full', 'ib', 'cr', 'crib', 'qss', 'wagner', 'mmapp'), dv_types=opt(lambda c: c.pick([{'drug': 1, 'target': 2}, {'drug': 1, 'complex': 2}, {'drug_tot': 1}, {'drug': 1, 'target_tot': 2, 'complex': 3}]), 2))
E('set_initial_condition', **T, compartment=comp, expression=lambda c: c.pick([10, 0, 'AMT', c.pick(c.ipars)]), time=num(0, 0, 1))
E('set_zero_order_input', **T, compartment=comp, expression=lambda c: c.pick([10, 0, c.pick(c.ipars)]))
for _n in (
    'find_clearance_parameters', 'find_volume_parameters', 'get_bioavailability', 'get_central_volume_and_clearance', 'get_lag_times',
    'get_zero_order_inputs', 'get_number_of_peripheral_compartments', 'get_number_of_transit_compartments',
    'has_first_order_absorption', 'has_first_order_elimination', 'has_instantaneous_absorption', 'has_linear_odes',
    'has_michaelis_menten_elimination', 'has_mixed_mm_fo_elimination', 'has_odes',
    'has_presystemic_metabolite', 'has_seq_zo_fo_absorption', 'has_zero_order_absorption', 'has_zero_order_elimination',
):
    E(_n)
E('get_initial_conditions')
E('has_linear_odes_with_real_eigenvalues', domain=small_linear_odes)

# ---- expressions / evaluation ----------------------------------------------------------------------------------------
for _n in (
    'calculate_epsilon_gradient_expression', 'calculate_eta_gradient_expression', 'get_individual_prediction_expression',
    'get_observation_expression', 'get_population_prediction_expression',
):
    E(_n)
PMAP = opt(lambda c: {n: float(c.m.parameters[n].init) * 1.1 for n in c.some(c.pops, 2) if _param(c, n) is not None}, 2)
E('evaluate_epsilon_gradient', etas=opt(s_ie, 2), parameters=PMAP)
E('evaluate_eta_gradient', etas=opt(s_ie, 2), parameters=PMAP)
E('evaluate_individual_prediction', etas=opt(s_ie, 2), parameters=PMAP)
E('evaluate_population_prediction', parameters=PMAP)
E('evaluate_weighted_residuals', parameters=PMAP)
E('evaluate_expression', expression=expr_str, parameter_estimates=PMAP)

# ---- results based ------------------------------------------------------------------------------------------------------
E('calculate_eta_shrinkage', parameter_estimates=s_pe, individual_estimates=s_ie)
E('calculate_individual_shrinkage', parameter_estimates=s_pe, individual_estimates_covariance=s_iec)
E('calculate_individual_parameter_statistics', domain=estimates_well_inside_bounds, expr_or_exprs=lambda c: c.pick([c.pick(c.ipars), expr_str(c), [c.pick(c.ipars)]]), parameter_estimates=s_pe, covariance_matrix=opt(s_cov, 2), seed=const(1234))
E('calculate_pk_parameters_statistics', domain=sampling_domain, parameter_estimates=s_pe, covariance_matrix=opt(s_cov, 2), seed=const(1234))
E('check_high_correlations', cor=s_cor, limit=num(0.9, 0.1))
E('check_parameters_near_bounds', values=s_pe)
E('sample_individual_estimates', individual_estimates=s_ie, individual_estimates_covariance=s_iec, parameters=opt(etas_(2), 2), samples_per_id=num(2, 5), seed=const(1234))
E('sample_parameters_from_covariance_matrix', domain=estimates_well_inside_bounds, parameter_estimates=s_pe, covariance_matrix=s_cov, force_posdef_samples=opt(num(0, 3), 2), n=num(1, 3), seed=const(1234))
E('sample_parameters_uniformly', domain=estimates_well_inside_bounds, parameter_estimates=s_pe, fraction=num(0.1, 0.5), force_posdef_samples=opt(num(0, 3), 2), n=num(1, 3), seed=const(1234))
E('transform_blq', **T, lloq=opt(num(0.5, 10.0, 20.0), 2))


# ---- outside pharmpy.modeling ----------------------------------------------------------------------------------------------


def _bic_space(c):
    v = c.pick(['ABSORPTION([FO,ZO]);PERIPHERALS(0..2)', 'ABSORPTION([FO,ZO,SEQ-ZO-FO]);ELIMINATION([FO,MM]);LAGTIME([OFF,ON]);TRANSITS([0,1,3]);PERIPHERALS(0..1)', ['iiv_diag'], ['iiv_diag', 'iiv_block'], ['iov']])
    c._cache['ss'] = v
    return v


def _tools():
    import pharmpy.tools.run as tr
    from pharmpy.tools.common import update_initial_estimates
    from pharmpy.tools.mfl.parse import get_model_features
    from pharmpy.workflows import ModelEntry
    from pharmpy.workflows.hashing import ModelHash

    STRICT = lit(
        'minimization_successful',
        'minimization_successful or (rounding_errors and sigdigs>=0.1)',
        'minimization_successful and rse < 0.5',
        'rse_theta < 0.1 and final_zero_gradient_theta',
        'condition_number < 1000',
    )

    def f_update_source(model):
        return model.update_source()

    def f_write_files(model, path):
        return model.write_files(path=path, force=True)

    def f_model_entry(model, parent, modelfit_results):
        return ModelEntry.create(model, parent=parent, modelfit_results=modelfit_results)

    def f_model_hash(model):
        h = ModelHash(model)
        return (str(h), h.dataset_hash)

    def f_summarize_entries(model, modelfit_results, include_all_execution_steps):
        me = ModelEntry.create(model, modelfit_results=modelfit_results)
        return tr.summarize_modelfit_results_from_entries([me], include_all_execution_steps)

    def f_to_from_dict(model):
        from pharmpy.model import Model

        return Model.from_dict(model.to_dict())

    def f_mfl_func(model, mfl, which):
        from pharmpy.tools.mfl.parse import parse

        feats = parse(mfl, mfl_class=True)
        funcs = feats.convert_to_funcs(model=model)
        keys = list(funcs.keys())
        if not keys:
            raise ValueError('no funcs')
        return funcs[keys[which % len(keys)]](model)

    def f_context_roundtrip(model, modelfit_results, path):
        import shutil

        from pharmpy.workflows.contexts import LocalDirectoryContext

        shutil.rmtree(path, ignore_errors=True)
        ctx = LocalDirectoryContext('c06ctx', path)
        try:
            me = ModelEntry.create(model, modelfit_results=modelfit_results)
            ctx.store_model_entry(me)
            back = ctx.retrieve_model_entry(model.name)
            return back.model
        finally:
            shutil.rmtree(path, ignore_errors=True)

    def f_rvs_direct(model, how, name, block, level):
        """RandomVariables.create / + / replace with one more distribution whose (first) name is `name`; the result goes
        back into a model (documented behaviour for a name that is taken: ValueError)"""
        from pharmpy.basic import Expr
        from pharmpy.model import JointNormalDistribution, NormalDistribution, Parameter, RandomVariables

        rvs = model.random_variables
        if block:
            names = [name, name + '_B'] if block == 1 else ['ZZ_A', name] if block == 2 else [name, name]
            var = [[Expr.symbol('C06_OM1'), Expr.symbol('C06_OM21')], [Expr.symbol('C06_OM21'), Expr.symbol('C06_OM2')]]
            dist = JointNormalDistribution.create(names, level, [0, 0], var)
            newp = [Parameter.create('C06_OM1', 0.1), Parameter.create('C06_OM21', 0.01), Parameter.create('C06_OM2', 0.1)]
        else:
            dist = NormalDistribution.create(name, level, 0, Expr.symbol('C06_OM1'))
            newp = [Parameter.create('C06_OM1', 0.1)]
        if how == 'create':
            new = RandomVariables.create(list(rvs) + [dist], rvs.eta_levels, rvs.epsilon_levels)
        elif how == 'create-front':
            new = RandomVariables.create([dist] + list(rvs), rvs.eta_levels, rvs.epsilon_levels)
        elif how == 'add':
            new = rvs + dist
        elif how == 'radd':
            new = dist + rvs
        elif how == 'add-list':
            new = rvs + [dist]
        elif how == 'add-rvs':
            new = rvs + RandomVariables.create([dist], rvs.eta_levels, rvs.epsilon_levels)
        else:
            new = rvs.replace(dists=tuple(rvs) + (dist,))
        return model.replace(random_variables=new, parameters=model.parameters + newp)

    def _rv_name(c):
        k = c.k() % 4
        if k == 0:
            c.notes.append('direct-rv-name:fresh')
            return 'ETA_C06'
        name, label = colliding_rv_name(c)
        c.notes.append('direct-rv-name:collides-with:' + label)
        return name

    def f_params_direct(model, how, name):
        """Parameters.create / + / replace with one more parameter called `name`"""
        from pharmpy.model import Parameter, Parameters

        ps = model.parameters
        p = Parameter.create(name, 0.5)
        if how == 'create':
            new = Parameters.create(list(ps) + [p])
        elif how == 'add':
            new = ps + p
        elif how == 'radd':
            new = p + ps
        elif how == 'add-list':
            new = ps + [p]
        elif how == 'add-parameters':
            new = ps + Parameters.create([p])
        else:
            new = ps.replace(parameters=tuple(ps) + (p,))
        return model.replace(parameters=new)

    def _par_name(c):
        if c.k() % 3 == 0:
            c.notes.append('direct-parameter-name:fresh')
            return 'THETA_C06'
        c.notes.append('direct-parameter-name:collides')
        return c.pick(c.pops, fallback='THETA_C06')

    E(
        'RandomVariables.create/+/replace', fn=f_rvs_direct, **T, how=lit('create', 'create-front', 'add', 'radd', 'add-list', 'add-rvs', 'replace'),
        name=_rv_name, block=num(0, 0, 1, 2, 3), level=lit('iiv', 'iiv', 'iiv', 'ruv'),
    )
    E('Parameters.create/+/replace', fn=f_params_direct, **T, how=lit('create', 'add', 'radd', 'add-list', 'add-parameters', 'replace'), name=_par_name)
    def f_statements_direct(model, how):
        """Model.replace(statements=...) with one more assignment placed before the last statement: a first
        definition that refers to itself, a use before the definition, an undefined symbol (all three must be
        refused: ValueError) or a proper statement"""
        from pharmpy.basic import Expr
        from pharmpy.model import Assignment

        sts = model.statements
        i = max(len(sts) - 1, 0)
        new_s, later, first = Expr.symbol('NEWS_C06'), Expr.symbol('LATER_C06'), None
        for s_ in sts:
            if isinstance(s_, Assignment):
                first = s_.symbol
                break
        if how == 'self-reference':
            new = Assignment.create(new_s, new_s * 2)
        elif how == 'defined-later':
            new = Assignment.create(new_s, later + 1) + Assignment.create(later, Expr.integer(1))
        elif how == 'undefined':
            new = Assignment.create(new_s, Expr.symbol('NOWHERE_C06') + 1)
        else:
            new = Assignment.create(new_s, (first if first is not None else Expr.integer(1)) + 1)
        return model.replace(statements=sts[:i] + new + sts[i:])

    E('Model.replace(statements)', fn=f_statements_direct, **T, how=lit('self-reference', 'defined-later', 'undefined', 'fine', 'self-reference'))
    E('Model.update_source', fn=f_update_source, **T)
    E('Model.write_files', fn=f_write_files, **T, path=scratch_file('.mod'))
    E('Model.to_dict/from_dict', fn=f_to_from_dict, **T)
    E('ModelEntry.create', fn=f_model_entry, parent=opt(lambda c: c.m.replace(name='parent_of_' + c.m.name), 2), modelfit_results=opt(s_res, 2))
    E('ModelHash', fn=f_model_hash)
    E('tools.is_strictness_fulfilled', fn=tr.is_strictness_fulfilled, results=s_res, strictness=STRICT)
    E('tools.get_rankval', fn=tr.get_rankval, res=s_res, strictness=STRICT, rank_type=lit('ofv', 'aic', 'bic', 'lrt'), extra=lambda c: {'bic_type': c.pick(['mixed', 'fixed', 'random', 'iiv'])})
    E(
        'tools.rank_models', fn=tr.rank_models, first='base_model', base_model_res=s_res, models=cand_models, models_res=cand_res,
        parent_dict=const(None), strictness=opt(STRICT, 2), rank_type=lit('ofv', 'aic', 'bic', 'lrt', 'mbic'),
        cutoff=opt(num(3.84, 0.05), 2), penalties=const(None),
    )
    E('tools.summarize_modelfit_results_from_entries', fn=f_summarize_entries, modelfit_results=s_res, include_all_execution_steps=lambda c: bool(c.k() % 2))
    E(
        'tools.calculate_bic_penalty', fn=tr.calculate_bic_penalty, first='candidate_model',
        search_space=_bic_space,
        base_model=lambda c: (None if isinstance(c._cache.get('ss'), str) else c.m.replace(name='base')) if c.k() % 5 else (c.m.replace(name='base') if c.k() % 2 else None),
        E_p=opt(num(1.0, 0.5, '50%'), 5), E_q=opt(num(1.0, 0.5), 5), keep=opt(lambda c: c.some(c.ipars, 2), 2),
    )
    E('tools.update_initial_estimates', fn=update_initial_estimates, **T, modelfit_results=opt(s_res, 4), move_est_close_to_bounds=lambda c: bool(c.k() % 2))
    E('tools.print_fit_summary', fn=tr.print_fit_summary, modelfit_results=s_res)
    E('tools.get_model_features', fn=get_model_features, supress_warnings=const(True))
    E(
        'tools.mfl.convert_to_funcs', fn=f_mfl_func, **T,
        mfl=lit('ABSORPTION([FO,ZO,SEQ-ZO-FO]);ELIMINATION([FO,MM,MIX-FO-MM]);LAGTIME([OFF,ON]);TRANSITS([0,1,3]);PERIPHERALS(0..2)', 'COVARIATE([CL,VC,V],[WGT,AGE],[exp,lin,pow])', 'DIRECTEFFECT([linear,emax]);EFFECTCOMP(sigmoid);INDIRECTEFFECT(linear,production)'),
        which=lambda c: c.k(),
    )
    E('workflows.context store/retrieve', fn=f_context_roundtrip, **T, modelfit_results=opt(s_res, 2), path=lambda c: os.path.join(c.scratch, 'ctx'))


_tools_done = False


def _ensure():
    global _tools_done
    if not _tools_done:
        _tools()
        _tools_done = True


EXCLUDED = {
    # pharmpy.modeling
    'plot_abs_cwres_vs_ipred': 'plot function (altair chart; not a model computation)',
    'plot_cwres_vs_idv': 'plot function',
    'plot_dv_vs_ipred': 'plot function',
    'plot_dv_vs_pred': 'plot function',
    'plot_eta_distributions': 'plot function',
    'plot_individual_predictions': 'plot function',
    'plot_transformed_eta_distributions': 'plot function',
    'plot_vpc': 'plot function; needs a simulation results file',
    # pharmpy.tools
    'tools.fit': 'runs an external estimation tool (NONMEM)',
    'tools.run_*': 'tool workflows: need NONMEM/R and take minutes',
    'tools.predict_outliers': 'needs tflite_runtime (not installed)',
    'tools.predict_influential_individuals': 'needs tflite_runtime (not installed)',
    'tools.predict_influential_outliers': 'needs tflite_runtime (not installed)',
    'tools.create_report': 'renders an html report through external tooling',
    'tools.load_example_modelfit_results / read_modelfit_results / read_results / retrieve_models': 'take a path, not a model',
    'tools.summarize_modelfit_results': 'takes a Context; covered through summarize_modelfit_results_from_entries and the context round trip',
    'tools.common.create_plots': 'plot function',
    # restricted domains of table entries
    'solve_ode_system / has_linear_odes_with_real_eigenvalues / calculate_pk_parameters_statistics [non-linear or >3 compartments]': 'sympy dsolve / eigenvalue routines do not terminate in reasonable time; only linear systems with <= 3 compartments are called',
    'sample_parameters_* / calculate_*_parameter(s)_statistics [estimates within 2 sd of a bound, > 25 parameters]': 'unbounded rejection sampling',
    'add_iov [occasion column with > 4 categories]': 'one eta per category and parameter: models of unbounded size',
    'get_unit_of [model variables]': 'sympy.solve over the unit equations may not terminate; only data columns are asked for',
}


# where a function has something to do: preferred start models / a prior step (used by the enumerated part of C06)
PREFER = {}
for _n in (
    'evaluate_epsilon_gradient', 'evaluate_eta_gradient', 'evaluate_individual_prediction', 'evaluate_population_prediction',
    'evaluate_weighted_residuals', 'evaluate_expression', 'calculate_epsilon_gradient_expression', 'calculate_eta_gradient_expression',
    'get_individual_prediction_expression', 'get_observation_expression', 'get_population_prediction_expression',
):
    PREFER[_n] = dict(starts=('minimal_pred', 'linbase_pred'))
PREFER['get_pd_parameters'] = dict(pre='set_direct_effect')
PREFER['add_pd_iiv'] = dict(pre='set_direct_effect')
PREFER['remove_lag_time'] = dict(pre='add_lag_time')
PREFER['set_first_order_elimination'] = dict(pre='set_michaelis_menten_elimination')
PREFER['remove_unused_parameters_and_rvs'] = dict(pre='add_population_parameter')
PREFER['bump_model_number'] = dict(pre='set_name')
PREFER['remove_peripheral_compartment'] = dict(pre='add_peripheral_compartment')
PREFER['remove_bioavailability'] = dict(pre='add_bioavailability')
PREFER['remove_iov'] = dict(pre='add_iov')
PREFER['split_joint_distribution'] = dict(starts=('pheno_block', 'mox1'))
PREFER['update_initial_individual_estimates'] = dict(starts=('pheno_etas', 'linbase_pred'))


# histories for the enumerated part of C06: a joint distribution (block of 2-3 etas) first, then functions that
# take names for new random variables / build RandomVariables directly
COLLISION_STARTS = ('pheno', 'pheno_real', 'mox2', 'pheno_block', 'basic_oral', 'pheno_noifs')
COLLISION_FUNCS = ('add_iiv', 'set_iiv_on_ruv', 'add_iov', 'RandomVariables.create/+/replace')


def names():
    _ensure()
    return sorted(TABLE)


def transform_names():
    _ensure()
    return sorted(n for n, e in TABLE.items() if e.transform)


# ------------------------------------------------------------------------------------------------
# automatic strategies from signatures


def _literals_from_annotation(fn, p):
    ann = p.annotation
    if ann is inspect.Parameter.empty:
        return None
    # resolved typing object
    if not isinstance(ann, str):
        import typing

        found = []

        def walk(a):
            if typing.get_origin(a) is typing.Literal:
                for x in typing.get_args(a):
                    if isinstance(x, (tuple, list)):
                        found.extend(x)
                    else:
                        found.append(x)
                return
            for x in typing.get_args(a) or ():
                walk(x)

        walk(ann)
        if ann is bool:
            return [False, True]
        return found or None
    # string annotation (from __future__ import annotations)
    s = ann.strip()
    if s == 'bool':
        return [False, True]
    m = re.search(r'Literal\[(.*?)\](?!\w)', s)
    if not m:
        # module-level alias such as MethodType = Literal[...]
        al = getattr(fn, '__globals__', {}).get(s)
        if al is not None:
            import typing

            if typing.get_origin(al) is typing.Literal:
                return list(typing.get_args(al))
        return None
    inner = m.group(1)
    try:
        v = ast.literal_eval('[' + inner + ']')
        return list(v)
    except Exception:
        pass
    try:
        v = eval(inner, dict(getattr(fn, '__globals__', {})))  # e.g. Literal[TMDD_TYPE], Literal[tuple(X)]
        if isinstance(v, (tuple, list)):
            return list(v)
        return [v]
    except Exception:
        return None


def auto_provider(fn, p):
    lits = _literals_from_annotation(fn, p)
    if lits:
        return lambda c, _l=tuple(lits): c.pick(_l)
    return None


_sig_cache = {}


def signature(entry: Entry):
    fn = entry.resolve()
    if entry.name not in _sig_cache:
        _sig_cache[entry.name] = inspect.signature(fn)
    return _sig_cache[entry.name]


LAST_NOTES = []


def build(name: str, model, ints, scratch: str):
    """-> (entry, kwargs) with the model parameter omitted (call as fn(model, **kwargs)); the notes of the argument
    strategies of this call are left in LAST_NOTES"""
    global LAST_NOTES
    LAST_NOTES = []
    _ensure()
    entry = TABLE[name]
    fn = entry.resolve()
    sig = signature(entry)
    c = Ctx(model, ints, scratch)
    kwargs = {}
    ps = list(sig.parameters.values())
    if not ps or ps[0].name != entry.first:
        raise HarnessError(f'{name}: first parameter is {ps[0].name if ps else None}, expected {entry.first}')
    for p in ps[1:]:
        if p.kind in (p.VAR_KEYWORD, p.VAR_POSITIONAL):
            continue
        if p.name in entry.params:
            kwargs[p.name] = entry.params[p.name](c)
            continue
        auto = auto_provider(fn, p)
        if p.default is inspect.Parameter.empty:
            if auto is None:
                raise HarnessError(f'{name}: no strategy for required parameter {p.name}')
            kwargs[p.name] = auto(c)
        elif auto is not None and c.k() % 3 == 0:
            kwargs[p.name] = auto(c)
    unknown = set(entry.params) - {p.name for p in ps}
    if unknown:
        raise HarnessError(f'{name}: strategies for unknown parameters {sorted(unknown)}')
    if entry.extra is not None:
        kwargs.update(entry.extra(c))
    LAST_NOTES = list(c.notes)
    return entry, kwargs


def check_complete():
    """every model-taking callable exported by pharmpy.modeling is in TABLE or EXCLUDED; every table entry
    resolves and its required parameters have a strategy"""
    import pharmpy.modeling as pm

    _ensure()
    missing = []
    for n in pm.__all__:
        f = getattr(pm, n)
        if not callable(f) or inspect.isclass(f):
            continue
        try:
            ps = list(inspect.signature(f).parameters.values())
        except (TypeError, ValueError):
            continue
        if ps and ps[0].name in ('model', 'dataset_or_model') and n not in TABLE and n not in EXCLUDED:
            missing.append(n)
    if missing:
        raise HarnessError(f'pharmpy.modeling functions taking a model without table entry: {missing}')
    for n, e in TABLE.items():
        fn = e.resolve()
        ps = list(signature(e).parameters.values())
        if not ps or ps[0].name != e.first:
            raise HarnessError(f'{n}: first parameter is not {e.first}')
        for p in ps[1:]:
            if p.kind in (p.VAR_KEYWORD, p.VAR_POSITIONAL) or p.name in e.params:
                continue
            if p.default is inspect.Parameter.empty and auto_provider(fn, p) is None:
                raise HarnessError(f'{n}: no strategy for required parameter {p.name}')
        unknown = set(e.params) - {p.name for p in ps}
        if unknown:
            raise HarnessError(f'{n}: strategies for unknown parameters {sorted(unknown)}')
    return len(TABLE)
