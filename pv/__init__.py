"""pv -- property-based verification machinery for pharmpy (see /verif/DESIGN.md)."""
