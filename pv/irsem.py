"""E1 -- numeric semantics of pharmpy IR objects (expressions, statements).

Own tree walk over sympy nodes with Python floats so that Piecewise without default,
relationals and the NONMEM helper functions have a defined, observable behaviour.
The environment maps *names* (str(symbol)) or sympy objects to floats.
"""

from __future__ import annotations

import math

import sympy

NAN = float('nan')


class EvalError(Exception):
    pass


class Undefined(EvalError):
    """Symbol without value / Piecewise without matching branch."""


def _phi(x):
    return 0.5 * (1.0 + math.erf(x / math.sqrt(2.0)))


def ev(e, env) -> float:
    """Evaluate sympy expression (or pharmpy Expr) numerically in env."""
    if hasattr(e, '_sympy_') and not isinstance(e, sympy.Basic):
        e = e._sympy_()
    return _ev(e, env)


def _lookup(e, env):
    if e in env:
        return env[e]
    s = str(e)
    if s in env:
        return env[s]
    raise Undefined(s)


def _ev(e, env):
    try:
        return _ev0(e, env)
    except (ValueError, OverflowError, ZeroDivisionError):
        # math domain error / overflow inside a library function: not a number
        return NAN


def _ev0(e, env):
    if isinstance(e, (int, float)):
        return float(e)
    if e is sympy.zoo or e is sympy.nan or e is sympy.I:
        return NAN  # complex / undefined results are 'not a (real) number' for every comparison
    if e.is_Symbol:
        return float(_lookup(e, env))
    if e.is_Number:
        if e is sympy.nan or e is sympy.zoo:
            return NAN
        if e is sympy.oo:
            return math.inf
        if e is sympy.S.NegativeInfinity:
            return -math.inf
        return float(e)
    if e.is_NumberSymbol:
        return float(e)
    if e.is_Add:
        s = 0.0
        for a in e.args:
            s += _ev(a, env)
        return s
    if e.is_Mul:
        p = 1.0
        for a in e.args:
            p *= _ev(a, env)
        return p
    if e.is_Pow:
        b = _ev(e.args[0], env)
        x = _ev(e.args[1], env)
        try:
            if b == 0.0 and x < 0:
                return math.inf
            if b < 0 and x != int(x):
                return NAN
            return b**x
        except OverflowError:
            return math.inf
        except ZeroDivisionError:
            return math.inf
    if isinstance(e, sympy.Piecewise):
        for val, cond in e.args:
            if _evb(cond, env):
                return _ev(val, env)
        raise Undefined('piecewise without matching branch')
    f = e.func
    if f is sympy.exp:
        try:
            return math.exp(_ev(e.args[0], env))
        except OverflowError:
            return math.inf
    if f is sympy.log:
        x = _ev(e.args[0], env)
        if len(e.args) == 2:
            b = _ev(e.args[1], env)
            return _log(x) / _log(b)
        return _log(x)
    if f is sympy.Abs:
        return abs(_ev(e.args[0], env))
    if f is sympy.re:
        return _ev(e.args[0], env)  # all model quantities are real
    if f is sympy.im:
        return 0.0
    if f is sympy.sign:
        x = _ev(e.args[0], env)
        return 0.0 if x == 0 else math.copysign(1.0, x)
    if f is sympy.floor:
        x = _ev(e.args[0], env)
        return float(math.floor(x)) if math.isfinite(x) else x
    if f is sympy.ceiling:
        x = _ev(e.args[0], env)
        return float(math.ceil(x)) if math.isfinite(x) else x
    if f is sympy.Mod:
        a = _ev(e.args[0], env)
        b = _ev(e.args[1], env)
        if b == 0:
            return NAN
        return a - b * math.floor(a / b)
    if f is sympy.sqrt:
        return _sqrt(_ev(e.args[0], env))
    if f is sympy.sin:
        return math.sin(_ev(e.args[0], env))
    if f is sympy.cos:
        return math.cos(_ev(e.args[0], env))
    if f is sympy.tan:
        return math.tan(_ev(e.args[0], env))
    if f is sympy.asin:
        return math.asin(_ev(e.args[0], env))
    if f is sympy.acos:
        return math.acos(_ev(e.args[0], env))
    if f is sympy.atan:
        return math.atan(_ev(e.args[0], env))
    if f is sympy.sinh:
        return math.sinh(_ev(e.args[0], env))
    if f is sympy.cosh:
        return math.cosh(_ev(e.args[0], env))
    if f is sympy.tanh:
        return math.tanh(_ev(e.args[0], env))
    if f is sympy.loggamma:
        return math.lgamma(_ev(e.args[0], env))
    if f is sympy.gamma:
        return math.gamma(_ev(e.args[0], env))
    if f is sympy.factorial:
        return math.gamma(_ev(e.args[0], env) + 1.0)
    if f is sympy.erf:
        return math.erf(_ev(e.args[0], env))
    if f is sympy.Max:
        return max(_ev(a, env) for a in e.args)
    if f is sympy.Min:
        return min(_ev(a, env) for a in e.args)
    name = getattr(f, '__name__', str(f))
    if name == 'PHI':
        return _phi(_ev(e.args[0], env))
    if isinstance(e, sympy.Derivative) or e.is_Function:
        # applied undefined function such as A_CENTRAL(t), or a derivative: look up
        return float(_lookup(e, env))
    raise EvalError(f'cannot evaluate node {type(e).__name__}: {e}')


def _log(x):
    if x > 0:
        return math.log(x)
    if x == 0:
        return -math.inf
    return NAN


def _sqrt(x):
    return math.sqrt(x) if x >= 0 else NAN


def _evb(c, env) -> bool:
    if c is sympy.true or c is True:
        return True
    if c is sympy.false or c is False:
        return False
    if isinstance(c, sympy.And):
        return all(_evb(a, env) for a in c.args)
    if isinstance(c, sympy.Or):
        return any(_evb(a, env) for a in c.args)
    if isinstance(c, sympy.Not):
        return not _evb(c.args[0], env)
    if isinstance(c, sympy.ITE):
        return _evb(c.args[1], env) if _evb(c.args[0], env) else _evb(c.args[2], env)
    if isinstance(c, sympy.core.relational.Relational):
        a = _ev(c.lhs, env)
        b = _ev(c.rhs, env)
        if isinstance(c, sympy.Eq):
            return a == b
        if isinstance(c, sympy.Ne):
            return a != b
        if isinstance(c, sympy.Lt):
            return a < b
        if isinstance(c, sympy.Le):
            return a <= b
        if isinstance(c, sympy.Gt):
            return a > b
        if isinstance(c, sympy.Ge):
            return a >= b
    if isinstance(c, sympy.Symbol):
        return bool(_lookup(c, env))
    raise EvalError(f'cannot evaluate condition {type(c).__name__}: {c}')


def close(a: float, b: float, rtol=1e-9, atol=1e-12) -> bool:
    if a != a and b != b:
        return True
    if a != a or b != b:
        return False
    if math.isinf(a) or math.isinf(b):
        return a == b
    return abs(a - b) <= atol + rtol * max(1.0, abs(a), abs(b))


def run_statements(statements, env, amounts=None):
    """Sequentially execute pharmpy Statements (assignments only; an ODE system, if any,
    binds its amount functions A_x(t) from `amounts` (name -> float)).  Returns the final
    environment (names -> float)."""
    from pharmpy.model import Assignment, CompartmentalSystem

    env = dict(env)
    for s in statements:
        if isinstance(s, Assignment):
            val = ev(s.expression, env)
            sym = s.symbol._sympy_()
            env[str(sym)] = val
        elif isinstance(s, CompartmentalSystem):
            if amounts is None:
                raise EvalError('ODE system without amounts')
            for a in s.amounts:
                a = a._sympy_() if hasattr(a, '_sympy_') else a
                nm = str(a.func) if a.is_Function else str(a)
                env[str(a)] = amounts[nm] if nm in amounts else amounts[str(a)]
    return env
