"""E7 -- fault-injecting file system (in-process interposition).

`FaultFS(root, crash_at=k, cut=permille, mode=...)` is a context manager that replaces, for
its dynamic extent, the file-system entry points of `os`, `builtins`/`io` and `shutil` by
interposers.  Calls on paths *outside* `root` pass straight through.  Calls on paths under
`root` are *intercepted*; those that change the directory tree or the content of a file are
additionally *numbered* 1, 2, ... (the trace).  The numbered operations are the operations
the operating system would see from the process:

    mkdir (of a missing directory), open/os.open that creates a file or truncates a
    non-empty one, write (one operation per flush of the user-space buffer: data handed to
    `file.write` stays in the wrapper until `flush`/`close`, exactly like a buffered Python
    file -- a process that dies loses its unflushed buffer), os.write, rename/replace/link,
    unlink/remove, rmdir, symlink, truncate, shutil.copy*/copytree/move/rmtree (one
    operation each).

Intercepted but not numbered (no change of tree/content, so a crash there yields the same
disk state as a crash at the next numbered operation): opens for reading / appending to an
existing file / os.open without creation, close, utime, mkdir of an existing directory.

Faults (at numbered operation `crash_at`):

    mode='crash'  raise SimulatedCrash(BaseException) *instead of* performing the operation
                  (a write first puts the prefix `data[: len*cut//1000]` on disk: torn
                  write).  From then on the instance is *dead*: every intercepted operation
                  raises SimulatedCrash again, so no finally/__exit__ handler can repair
                  anything.  `kill()` then does what process death does: closes every
                  descriptor/file object opened through the interposer *without* flushing
                  wrapper buffers.
    mode='exit'   same, but calls os._exit(EXIT_CODE) (used in a forked child to validate
                  the simulation against a real process death).
    mode='enospc' raise OSError(ENOSPC) once (a write first puts the prefix on disk); the
                  process continues and later operations work normally.
    mode='none'   only number and trace.

The original functions are captured at import of this module; `uninstall()` always
restores exactly those, and `assert_clean()` verifies it.
"""

from __future__ import annotations

import builtins
import errno
import io
import os
import shutil

EXIT_CODE = 77


class SimulatedCrash(BaseException):
    """The simulated process died at numbered operation `n`."""

    def __init__(self, n=None):
        super().__init__(f'simulated crash at fs operation {n}')
        self.n = n


class FaultFSError(Exception):
    """Misuse / inconsistency of the engine itself (a harness error)."""


_OS_NAMES = (
    'mkdir', 'open', 'close', 'write', 'rename', 'replace', 'link', 'unlink', 'remove', 'rmdir',
    'symlink', 'utime', 'truncate',
)
_SHUTIL_NAMES = ('copy', 'copy2', 'copyfile', 'copytree', 'move', 'rmtree')

_REAL_OS = {n: getattr(os, n) for n in _OS_NAMES}
_REAL_SHUTIL = {n: getattr(shutil, n) for n in _SHUTIL_NAMES}
_REAL_OPEN = builtins.open
if io.open is not _REAL_OPEN:  # pragma: no cover
    raise FaultFSError('io.open is not builtins.open at import of pv.faultfs')

_ACTIVE = None  # the installed FaultFS, if any


def _fspath(p):
    p = os.fspath(p)
    if isinstance(p, bytes):
        p = os.fsdecode(p)
    return p


class _WFile:
    """Write-mode file object with an explicit user-space buffer.

    write() only appends to the buffer; flush()/close() hand the buffer to the engine as one
    numbered 'write' operation, which puts it (or, at the fault point, a prefix) on disk
    through the real file object and flushes that."""

    def __init__(self, fs, real, rel):
        self._fs = fs
        self._real = real
        self._rel = rel
        self._pending = []
        self._closed = False

    # -- writing ------------------------------------------------------------------------
    def write(self, data):
        self._fs._alive()
        if self._closed:
            raise ValueError('I/O operation on closed file.')
        if len(data):
            self._pending.append(data)
        return len(data)

    def writelines(self, lines):
        for ln in lines:
            self.write(ln)

    def flush(self):
        self._fs._alive()
        if self._closed:
            raise ValueError('I/O operation on closed file.')
        if self._pending:
            self._fs._yield('write', self._rel)
            data = self._pending[0][:0].join(self._pending)
            self._pending = []
            self._fs._write(self, data)

    def close(self):
        self._fs._alive()
        if self._closed:
            return
        try:
            self.flush()
        finally:
            if not self._fs.dead:
                self._closed = True
                self._fs._files.discard(self)
                self._real.close()

    def truncate(self, size=None):
        self.flush()
        self._fs._step('truncate', self._rel)
        return self._real.truncate(size)

    # -- reading / positioning on '+' files: flush first ----------------------------------
    def _sync(self):
        self.flush()
        return self._real

    def read(self, *a):
        return self._sync().read(*a)

    def readline(self, *a):
        return self._sync().readline(*a)

    def readlines(self, *a):
        return self._sync().readlines(*a)

    def seek(self, *a):
        return self._sync().seek(*a)

    def tell(self):
        return self._sync().tell()

    def __iter__(self):
        return iter(self._sync())

    # -- protocol -------------------------------------------------------------------------
    @property
    def closed(self):
        return self._closed

    def __enter__(self):
        self._fs._alive()
        return self

    def __exit__(self, *exc):
        self.close()
        return False

    def writable(self):
        return True

    def readable(self):
        return self._real.readable()

    def seekable(self):
        return self._real.seekable()

    def fileno(self):
        # handing out the descriptor would allow writes the engine cannot see
        raise io.UnsupportedOperation('fileno (pv.faultfs wrapper)')

    def __getattr__(self, name):
        if name in ('mode', 'name', 'encoding', 'errors', 'newlines', 'line_buffering', 'isatty'):
            return getattr(self._real, name)
        raise AttributeError(name)


class FaultFS:
    def __init__(self, root, crash_at=None, cut=0, mode='none', gate=None):
        self.gate = gate  # optional TurnGate: every intercepted call of a registered thread is a yield point
        if mode not in ('none', 'crash', 'exit', 'enospc'):
            raise FaultFSError(f'unknown mode {mode}')
        self.root = os.path.abspath(_fspath(root))
        self._prefix = self.root + os.sep
        self.crash_at = crash_at if mode != 'none' else None
        self.cut = max(0, min(1000, int(cut)))
        self.mode = mode
        self.n = 0
        self.trace = []  # dicts: n, op, path (relative to root), size (writes)
        self.dead = False
        self.fired = False  # the fault has been injected
        self.fault = None  # dict describing the injected fault
        self.injected_exc = None
        self._fds = set()
        self._fdpath = {}
        self._in_shutil = False
        self._files = set()
        self._installed = False

    # -- install / uninstall ----------------------------------------------------------------
    def __enter__(self):
        self.install()
        return self

    def __exit__(self, *exc):
        self.uninstall()
        return False

    def install(self):
        global _ACTIVE
        if _ACTIVE is not None:
            raise FaultFSError('another FaultFS is installed')
        assert_clean()
        _ACTIVE = self
        self._installed = True
        for n in _OS_NAMES:
            setattr(os, n, _OS_WRAPPERS[n])
        for n in _SHUTIL_NAMES:
            setattr(shutil, n, _SHUTIL_WRAPPERS[n])
        builtins.open = _open
        io.open = _open

    def uninstall(self):
        global _ACTIVE
        restore_all()
        if _ACTIVE is self:
            _ACTIVE = None
        self._installed = False

    def kill(self):
        """What process death does to the resources opened through the interposer."""
        for f in list(self._files):
            try:
                f._real.close()
            except Exception:
                pass
            f._closed = True
        self._files.clear()
        for fd in list(self._fds):
            try:
                _REAL_OS['close'](fd)
            except OSError:
                pass
        self._fds.clear()

    def close_leftovers(self):
        """After a run that did not die: close what the code under test leaked (nothing, normally)."""
        n = len(self._files) + len(self._fds)
        self.kill()
        return n

    # -- helpers ------------------------------------------------------------------------------
    def under(self, path):
        try:
            p = os.path.abspath(_fspath(path))
        except TypeError:
            return None
        if p == self.root or p.startswith(self._prefix):
            return p
        return None

    def rel(self, p):
        return os.path.relpath(p, self.root)

    def _alive(self):
        if self.dead:
            raise SimulatedCrash(self.n)

    def _yield(self, op, p):
        """Schedule point (only with a gate): the calling worker thread waits for its turn."""
        if self.gate is not None:
            self.gate.point(op, os.path.relpath(p, self.root) if os.path.isabs(p) else p)

    def _step(self, op, rel, size=None):
        """Number one state-changing operation; inject the fault if it is the chosen one.

        Returns normally when the operation shall be performed."""
        self._alive()
        self.n += 1
        ent = dict(n=self.n, op=op, path=rel)
        if size is not None:
            ent['size'] = size
        self.trace.append(ent)
        if self.crash_at is not None and self.n == self.crash_at and not self.fired:
            self._inject(ent, None)

    def _inject(self, ent, torn):
        self.fired = True
        self.fault = dict(ent)
        if torn is not None:
            self.fault['torn'] = torn
        if self.mode in ('crash', 'exit'):
            self.dead = True
            if self.mode == 'exit':
                os._exit(EXIT_CODE)
            raise SimulatedCrash(self.n)
        if self.mode == 'enospc':
            self.injected_exc = OSError(errno.ENOSPC, os.strerror(errno.ENOSPC), os.path.join(self.root, ent['path']))
            raise self.injected_exc

    def _write(self, wf, data):
        self._alive()
        self.n += 1
        ent = dict(n=self.n, op='write', path=wf._rel, size=len(data))
        self.trace.append(ent)
        if self.crash_at is not None and self.n == self.crash_at and not self.fired:
            ncut = (len(data) * self.cut) // 1000
            if ncut > 0:
                wf._real.write(data[:ncut])
                wf._real.flush()
            self._inject(ent, ncut)
        wf._real.write(data)
        wf._real.flush()


# ---------------------------------------------------------------------------------------------
# interposers (module level so that identity checks are simple)


def _exists(p):
    return os.path.lexists(p)


def _size(p):
    try:
        return os.stat(p).st_size
    except OSError:
        return 0


def _open(file, mode='r', *args, **kwargs):
    fs = _ACTIVE
    if fs is None or isinstance(file, int):
        return _REAL_OPEN(file, mode, *args, **kwargs)
    p = fs.under(file)
    if p is None:
        return _REAL_OPEN(file, mode, *args, **kwargs)
    fs._alive()
    fs._yield('open:' + mode, p)
    if not any(c in mode for c in 'wax+'):
        return _REAL_OPEN(file, mode, *args, **kwargs)
    there = os.path.exists(p)
    if 'x' in mode and _exists(p):
        return _REAL_OPEN(file, mode, *args, **kwargs)  # raises FileExistsError
    if 'r' in mode and not there:
        return _REAL_OPEN(file, mode, *args, **kwargs)  # raises FileNotFoundError
    if os.path.isdir(p) or not os.path.isdir(os.path.dirname(p)):
        return _REAL_OPEN(file, mode, *args, **kwargs)  # raises IsADirectoryError / FileNotFoundError
    changes = (not there) if 'w' not in mode else (not there or _size(p) > 0)
    if changes:
        fs._step('open:' + mode, fs.rel(p))
    real = _REAL_OPEN(file, mode, *args, **kwargs)
    wf = _WFile(fs, real, fs.rel(p))
    fs._files.add(wf)
    return wf


def _os_mkdir(path, *args, **kwargs):
    fs = _ACTIVE
    p = fs.under(path) if fs is not None and 'dir_fd' not in kwargs else None
    if p is None:
        return _REAL_OS['mkdir'](path, *args, **kwargs)
    fs._alive()
    fs._yield('mkdir', p)
    if _exists(p) or not os.path.isdir(os.path.dirname(p)):
        return _REAL_OS['mkdir'](path, *args, **kwargs)  # raises, no change
    fs._step('mkdir', fs.rel(p))
    return _REAL_OS['mkdir'](path, *args, **kwargs)


def _os_open(path, flags, *args, **kwargs):
    fs = _ACTIVE
    p = fs.under(path) if fs is not None and 'dir_fd' not in kwargs else None
    if p is None:
        return _REAL_OS['open'](path, flags, *args, **kwargs)
    fs._alive()
    fs._yield('os.open', p)
    there = _exists(p)
    if flags & os.O_CREAT and flags & os.O_EXCL and there:
        return _REAL_OS['open'](path, flags, *args, **kwargs)  # raises FileExistsError
    creates = bool(flags & os.O_CREAT) and not there
    truncs = bool(flags & os.O_TRUNC) and there and _size(p) > 0
    if not there and not creates:
        return _REAL_OS['open'](path, flags, *args, **kwargs)  # raises FileNotFoundError
    if creates or truncs:
        fs._step('os.open', fs.rel(p))
    fd = _REAL_OS['open'](path, flags, *args, **kwargs)
    fs._fds.add(fd)
    fs._fdpath[fd] = fs.rel(p)
    return fd


def _os_close(fd):
    fs = _ACTIVE
    if fs is not None and fd in fs._fds:
        fs._alive()
        fs._fds.discard(fd)
    return _REAL_OS['close'](fd)


def _os_write(fd, data):
    fs = _ACTIVE
    if fs is None or fd not in fs._fds:
        return _REAL_OS['write'](fd, data)
    fs._alive()
    fs.n += 1
    ent = dict(n=fs.n, op='os.write', path=fs._fdpath.get(fd, '?'), size=len(data))
    fs.trace.append(ent)
    if fs.crash_at is not None and fs.n == fs.crash_at and not fs.fired:
        ncut = (len(data) * fs.cut) // 1000
        if ncut > 0:
            _REAL_OS['write'](fd, data[:ncut])
        fs._inject(ent, ncut)
    return _REAL_OS['write'](fd, data)


def _two_paths(name):
    real = _REAL_OS[name]

    def wrapper(src, dst, *args, **kwargs):
        fs = _ACTIVE
        if fs is None or 'src_dir_fd' in kwargs or 'dst_dir_fd' in kwargs or 'dir_fd' in kwargs:
            return real(src, dst, *args, **kwargs)
        # symlink(target, linkpath): only the link path is a location
        ps = fs.under(src) if name != 'symlink' else None
        pd_ = fs.under(dst)
        if ps is None and pd_ is None:
            return real(src, dst, *args, **kwargs)
        fs._alive()
        fs._yield(name, pd_ if pd_ is not None else ps)
        if name in ('symlink', 'link') and pd_ is not None and _exists(pd_):
            return real(src, dst, *args, **kwargs)  # raises FileExistsError
        if name in ('rename', 'replace', 'link') and ps is not None and not _exists(ps):
            return real(src, dst, *args, **kwargs)  # raises FileNotFoundError
        fs._step(name, fs.rel(pd_ if pd_ is not None else ps))
        return real(src, dst, *args, **kwargs)

    wrapper.__name__ = name
    return wrapper


def _one_path(name, numbered=True):
    real = _REAL_OS[name]

    def wrapper(path, *args, **kwargs):
        fs = _ACTIVE
        if fs is None or isinstance(path, int) or 'dir_fd' in kwargs:
            return real(path, *args, **kwargs)
        p = fs.under(path)
        if p is None:
            return real(path, *args, **kwargs)
        fs._alive()
        fs._yield(name, p)
        if numbered:
            if not _exists(p):
                return real(path, *args, **kwargs)  # raises FileNotFoundError
            fs._step(name, fs.rel(p))
        return real(path, *args, **kwargs)

    wrapper.__name__ = name
    return wrapper


def _shutil_op(name):
    real = _REAL_SHUTIL[name]

    def wrapper(*args, **kwargs):
        fs = _ACTIVE
        if fs is None:
            return real(*args, **kwargs)
        paths = [a for a in list(args[:2]) + [kwargs.get('src'), kwargs.get('dst'), kwargs.get('path')] if a is not None]
        hit = None
        # the destination (last positional path) decides; rmtree has a single path
        for a in reversed(paths):
            try:
                hit = fs.under(a)
            except Exception:
                hit = None
            if hit is not None:
                break
        if hit is None or fs._in_shutil:
            return real(*args, **kwargs)
        fs._alive()
        if name == 'rmtree' or len(paths) < 2 or fs.under(paths[1]) is not None:
            fs._step('shutil.' + name, fs.rel(hit))
        # the body runs with numbering suspended: one operation as a whole
        fs._in_shutil = True
        saved = fs.crash_at
        n0, t0 = fs.n, len(fs.trace)
        fs.crash_at = None
        try:
            return real(*args, **kwargs)
        finally:
            fs._in_shutil = False
            fs.crash_at = saved
            fs.n = n0
            del fs.trace[t0:]

    wrapper.__name__ = name
    return wrapper


_OS_WRAPPERS = {
    'mkdir': _os_mkdir,
    'open': _os_open,
    'close': _os_close,
    'write': _os_write,
    'rename': _two_paths('rename'),
    'replace': _two_paths('replace'),
    'link': _two_paths('link'),
    'symlink': _two_paths('symlink'),
    'unlink': _one_path('unlink'),
    'remove': _one_path('remove'),
    'rmdir': _one_path('rmdir'),
    'truncate': _one_path('truncate'),
    'utime': _one_path('utime', numbered=False),
}
_SHUTIL_WRAPPERS = {n: _shutil_op(n) for n in _SHUTIL_NAMES}


def restore_all():
    """Put every original function back (idempotent; safe to call at any time)."""
    global _ACTIVE
    for n in _OS_NAMES:
        setattr(os, n, _REAL_OS[n])
    for n in _SHUTIL_NAMES:
        setattr(shutil, n, _REAL_SHUTIL[n])
    builtins.open = _REAL_OPEN
    io.open = _REAL_OPEN
    _ACTIVE = None


def is_clean():
    return (
        _ACTIVE is None
        and all(getattr(os, n) is _REAL_OS[n] for n in _OS_NAMES)
        and all(getattr(shutil, n) is _REAL_SHUTIL[n] for n in _SHUTIL_NAMES)
        and builtins.open is _REAL_OPEN
        and io.open is _REAL_OPEN
    )


def assert_clean():
    if not is_clean():
        restore_all()
        raise FaultFSError('file-system interposition was left installed')


def release_pharmpy_locks():
    """Process death drops every advisory lock and every in-process lock table of
    pharmpy.internals.fs.lock; the restarted 'process' lives in the same real process, so do
    that by hand (the descriptors themselves are closed by FaultFS.kill)."""
    import pharmpy.internals.fs.lock as lock

    left = 0
    for pool in (lock._fd_ref, lock._process_level_lock_ref, lock._thread_level_lock_ref):
        left += len(pool._refs)
        pool._refs.clear()
    return left


def snapshot_tree(root):
    """{relative path: ('dir',) | ('link', target) | ('file', bytes)} of a directory tree."""
    out = {}
    root = os.path.abspath(root)
    for d, dirs, files in os.walk(root):
        for nm in sorted(dirs + files):
            p = os.path.join(d, nm)
            r = os.path.relpath(p, root)
            if os.path.islink(p):
                out[r] = ('link', os.readlink(p))
            elif os.path.isdir(p):
                out[r] = ('dir',)
            else:
                with _REAL_OPEN(p, 'rb') as f:
                    out[r] = ('file', f.read())
    return out


# ---------------------------------------------------------------------------------------------
# schedule-owning gate for a few worker threads (used together with FaultFS(gate=...))


class GateTimeout(Exception):
    """A worker did not reach its next schedule point in time (inconclusive, never a violation)."""


class TurnGate:
    """Turn taking between registered worker threads at the granularity of the intercepted
    file-system calls (and of lock acquisition attempts, see `cooperative_path_lock`).

    Exactly one worker runs between two schedule points; all others are parked.  The scheduler
    (`run`, called in the controlling thread) picks the next worker from `choices`
    (choices[i] % number of eligible workers; 0 when exhausted).  A worker whose non-blocking
    lock attempt failed is not eligible again until another worker has taken a step."""

    def __init__(self, choices, timeout=10.0, max_steps=400):
        import threading

        self._threading = threading
        self.cv = threading.Condition()
        self.choices = list(choices)
        self.timeout = timeout
        self.max_steps = max_steps
        self.state = {}  # tid -> 'new' | 'parked' | 'running' | 'done'
        self.blocked = set()
        self.idents = {}
        self.turn = None
        self.free = False  # give up scheduling: every point passes
        self.trace = []  # (tid, op, path)
        self.contended = 0

    # -- worker side ---------------------------------------------------------------------------
    def expect(self, tid):
        self.state[tid] = 'new'

    def register(self, tid):
        self.idents[self._threading.get_ident()] = tid
        self.point('start', '')

    def _tid(self):
        return self.idents.get(self._threading.get_ident())

    def is_worker(self):
        return self._tid() is not None and not self.free

    def point(self, op, path):
        tid = self._tid()
        if tid is None or self.free:
            return
        with self.cv:
            self.state[tid] = 'parked'
            self.cv.notify_all()
            while self.turn != tid and not self.free:
                self.cv.wait(0.5)
            if self.free:
                return
            self.turn = None
            self.state[tid] = 'running'
            self.trace.append((tid, op, path))

    def mark_blocked(self):
        tid = self._tid()
        if tid is None:
            return
        with self.cv:
            self.blocked.add(tid)
            self.contended += 1

    def finish(self, tid):
        with self.cv:
            self.state[tid] = 'done'
            self.cv.notify_all()

    # -- scheduler side --------------------------------------------------------------------------
    def release_all(self):
        with self.cv:
            self.free = True
            self.cv.notify_all()

    def run(self):
        """-> 'done' | 'deadlock'; raises GateTimeout."""
        i = 0
        while True:
            with self.cv:
                ok = self.cv.wait_for(lambda: all(s in ('parked', 'done') for s in self.state.values()), self.timeout)
                if not ok:
                    self.free = True
                    self.cv.notify_all()
                    raise GateTimeout(f'worker states {self.state} after {len(self.trace)} steps')
                live = [t for t in sorted(self.state) if self.state[t] == 'parked']
                if not live:
                    return 'done'
                elig = [t for t in live if t not in self.blocked]
                if not elig:
                    self.free = True
                    self.cv.notify_all()
                    return 'deadlock'
                if len(self.trace) >= self.max_steps:
                    self.free = True
                    self.cv.notify_all()
                    raise GateTimeout(f'more than {self.max_steps} steps')
                c = self.choices[i] if i < len(self.choices) else 0
                i += 1
                t = elig[int(c) % len(elig)]
                self.blocked -= {x for x in self.blocked if x != t}
                self.state[t] = 'running'
                self.turn = t
                self.cv.notify_all()


def cooperative_path_lock(gate, real_path_lock, would_block):
    """A drop-in for pharmpy's path_lock: a worker never blocks inside the lock; it tries without
    blocking at a schedule point and, when that fails, gives the turn away and retries later.
    Other threads (and every thread once the gate runs free) use the real blocking lock."""
    from contextlib import ExitStack, contextmanager

    @contextmanager
    def path_lock(path, shared=False, blocking=True, reentrant=False):
        if not gate.is_worker() or not blocking:
            with real_path_lock(path, shared=shared, blocking=blocking, reentrant=reentrant) as fd:
                yield fd
            return
        with ExitStack() as stack:
            while True:
                gate.point('lock:' + ('sh' if shared else 'ex'), os.path.basename(str(path)))
                if gate.free:
                    fd = stack.enter_context(real_path_lock(path, shared=shared, blocking=True, reentrant=reentrant))
                    break
                try:
                    fd = stack.enter_context(real_path_lock(path, shared=shared, blocking=False, reentrant=reentrant))
                    break
                except would_block:
                    gate.mark_blocked()
            yield fd

    return path_lock
