"""E4 -- model corpus: deterministic start models built from the current tree.

    names()            -> list of start-model ids
    get(name)          -> Model (cached per process; models are immutable)

Ids: 'pheno' (example model), 'basic_iv_nm' / 'basic_oral_nm' (the basic models converted to NONMEM), 'pheno_real' / 'mox2' / ... (checked-in test models that load
in this environment, looked up at run time), 'basic_iv' / 'basic_oral' (create_basic_pk_model
with a small generated event dataset).
"""

from __future__ import annotations

import functools
import os
import warnings

from .core import REPO_DIR

TESTDATA = os.path.join(REPO_DIR, 'tests', 'testdata', 'nonmem')

# checked-in models: (id, relative path). Only those that exist and load are offered.
CANDIDATES = [
    ('pheno_real', 'pheno_real.mod'),
    ('pheno_advan3', 'models/pheno_advan3_trans1.mod'),
    ('mox2', 'models/mox2.mod'),
    ('mox1', 'models/mox1.mod'),
    ('mox_2comp', 'models/mox_2comp.mod'),
    ('pheno_conc', 'models/pheno_conc.mod'),
    ('pheno_dvid', 'models/pheno_dvid.mod'),
    ('pheno5', 'models/pheno5.mod'),
    ('pheno_noifs', 'models/pheno_noifs.mod'),
]


def _event_dataset():
    import numpy as np
    import pandas as pd

    rows = []
    for i in range(1, 7):
        wgt = 50.0 + 5.0 * i
        age = 20.0 + 3.0 * i
        rows.append(dict(ID=i, TIME=0.0, AMT=100.0 + 10 * i, DV=0.0, WGT=wgt, AGE=age, SEX=float(i % 2)))
        for j, t in enumerate([0.5, 1.0, 2.0, 4.0, 8.0, 12.0]):
            rows.append(dict(ID=i, TIME=t, AMT=0.0, DV=round(10.0 * np.exp(-0.1 * t * (1 + 0.05 * i)) + 0.01 * j, 4), WGT=wgt, AGE=age, SEX=float(i % 2)))
    df = pd.DataFrame(rows)
    df['ID'] = df['ID'].astype('int32')
    return df


@functools.lru_cache(maxsize=None)
def get(name: str):
    from pharmpy.modeling import create_basic_pk_model, load_example_model, read_model

    with warnings.catch_warnings():
        warnings.simplefilter('ignore')
        if name == 'pheno':
            return load_example_model('pheno')
        if name in ('basic_iv', 'basic_oral'):
            import tempfile

            df = _event_dataset()
            d = os.path.join(os.path.dirname(os.path.dirname(os.path.abspath(__file__))), '.scratch', f'corpus_{os.getpid()}')
            os.makedirs(d, exist_ok=True)
            path = os.path.join(d, 'events.csv')
            df.to_csv(path, index=False)
            m = create_basic_pk_model('iv' if name == 'basic_iv' else 'oral', dataset_path=path)
            return m
        if name in ('oral_cmt_nm', 'oral_periph_cmt_nm'):
            # NONMEM oral model whose dataset has a (non-dropped) CMT column: doses into compartment 1,
            # observations of compartment 2; read back from files so that $INPUT/$DATA describe it
            import shutil

            from pharmpy.modeling import add_peripheral_compartment, convert_model, write_model

            base = convert_model(get('basic_oral'), 'nonmem')
            if name == 'oral_periph_cmt_nm':
                base = add_peripheral_compartment(base)
            df = base.dataset.copy()
            df['CMT'] = [1 if a > 0 else 2 for a in df['AMT']]
            from pharmpy.model import ColumnInfo

            di = (base.datainfo + ColumnInfo.create('CMT', type='compartment', datatype='int32')).replace(path=None)
            m = base.replace(dataset=df, datainfo=di).update_source()
            d = os.path.join(os.path.dirname(os.path.dirname(os.path.abspath(__file__))), '.scratch', f'corpus_{os.getpid()}', name)
            shutil.rmtree(d, ignore_errors=True)
            os.makedirs(d, exist_ok=True)
            write_model(m, os.path.join(d, 'run1.mod'), force=True)
            return read_model(os.path.join(d, 'run1.mod'))
        if name in ('basic_iv_nm', 'basic_oral_nm'):
            from pharmpy.modeling import convert_model

            return convert_model(get(name[:-3]), 'nonmem')
        for cid, rel in CANDIDATES:
            if cid == name:
                return read_model(os.path.join(TESTDATA, rel))
    raise KeyError(name)


@functools.lru_cache(maxsize=None)
def names():
    out = ['pheno', 'basic_iv', 'basic_oral', 'basic_iv_nm', 'basic_oral_nm', 'oral_cmt_nm', 'oral_periph_cmt_nm']
    for cid, rel in CANDIDATES:
        if os.path.exists(os.path.join(TESTDATA, rel)):
            try:
                m = get(cid)
                _ = m.statements
                out.append(cid)
            except Exception:
                continue
    return tuple(out)
