"""Runner: python -m pv.run <ID> --tier quick|thorough | --replay <path>

Exit codes: 0 held (possibly with KNOWN-FINDING lines); 1 VIOLATION line(s) printed;
2 harness error / inconclusive.
"""

from __future__ import annotations

import argparse
import collections
import hashlib
import importlib
import json
import os
import sys
import time
import traceback

from .core import VERIF_DIR, CaseInfo, HarnessError, Reject, ResourceLimit, SubCheck, Violation, shrink, spec_hash

MAX_FAIL_PER_BUCKET = 12


def derive_seed(*parts) -> int:
    h = hashlib.sha256(':'.join(str(p) for p in parts).encode()).hexdigest()
    return int(h[:8], 16)


def load_check(prop: str):
    return importlib.import_module(f'pv.checks.{prop.lower()}')


def load_known(prop: str):
    """Known findings live in one committed file per property: /verif/known/<ID>.json"""
    path = os.path.join(VERIF_DIR, 'known', f'{prop}.json')
    if not os.path.exists(path):
        return []
    with open(path) as f:
        data = json.load(f)
    return [e for e in data.get('findings', []) if e.get('property') == prop]


def matches_known(mod, entry, subcheck: str, spec, clause: str) -> bool:
    if entry.get('status') != 'known':
        return False
    if entry.get('subcheck') not in (None, subcheck):
        return False
    cp = entry.get('clause')
    if cp is not None and not (clause == cp or clause.startswith(cp)):
        return False
    pred = entry.get('predicate')
    if pred:
        fn = getattr(mod, 'KNOWN_PREDICATES', {}).get(pred)
        if fn is None:
            raise HarnessError(f'known finding refers to unknown predicate {pred}')
        try:
            return bool(fn(spec))
        except Exception:
            return False
    return True


class CaseTimeout(BaseException):
    """Raised by the CPU-time watchdog; BaseException so that `except Exception` in oracles or in the code under
    test does not turn it into a verdict."""


CASE_CPU_SECONDS = float(os.environ.get('PV_CASE_CPU_SECONDS', '300'))
PROCESS_GB = float(os.environ.get('PV_PROCESS_GB', '8'))


def limit_address_space():
    """sympy's simplification / ODE solving occasionally grows without bound on a generated input (a worker was
    killed by the kernel at 60 GB): every process of a run gets an address-space limit, the resulting MemoryError
    is counted as an inconclusive case (see eval_case / core.guard)."""
    try:
        import resource

        if PROCESS_GB > 0:
            lim = int(PROCESS_GB * 2**30)
            soft, hard = resource.getrlimit(resource.RLIMIT_AS)
            if hard == resource.RLIM_INFINITY or lim <= hard:
                resource.setrlimit(resource.RLIMIT_AS, (lim, hard))
    except Exception:
        pass


def eval_case(sub: SubCheck, spec):
    """-> ('ok', CaseInfo) | ('reject', why) | ('fail', Violation) | ('timeout', None)

    A case that burns more than CASE_CPU_SECONDS of CPU in this process (sympy's dsolve / simplify do not
    terminate on some inputs) is abandoned and counted as inconclusive -- a budget hit is never a violation.
    ITIMER_VIRTUAL counts CPU time, so machine load does not matter, and it is independent of the ITIMER_REAL
    alarms some check modules use themselves."""
    import signal
    import threading

    armed = hasattr(signal, 'SIGVTALRM') and threading.current_thread() is threading.main_thread() and CASE_CPU_SECONDS > 0
    if armed:

        def _handler(signum, frame):
            raise CaseTimeout()

        old = signal.signal(signal.SIGVTALRM, _handler)
        signal.setitimer(signal.ITIMER_VIRTUAL, CASE_CPU_SECONDS)
    try:
        try:
            info = sub.run(spec)
            if info is None:
                info = CaseInfo()
            return 'ok', info
        except Reject as r:
            return 'reject', r.why
        except Violation as v:
            return 'fail', v
        except (CaseTimeout, ResourceLimit, MemoryError):
            return 'timeout', None
    finally:
        if armed:
            signal.setitimer(signal.ITIMER_VIRTUAL, 0)
            signal.signal(signal.SIGVTALRM, old)


def _jsonable(x):
    try:
        json.dumps(x)
        return x
    except Exception:
        return repr(x)[:2000]


_POISONED = [False]


def run_shard(prop, subname, shard, nshards, n, seed, tier):
    """Executed in a worker process."""
    os.environ.setdefault('PYTHONHASHSEED', '0')
    limit_address_space()
    if _POISONED[0]:
        # an earlier case in this process was interrupted asynchronously by the CPU watchdog: module state
        # (half-finished imports, caches) may be inconsistent, so later shards run in a fresh interpreter
        import multiprocessing as mp
        from concurrent.futures import ProcessPoolExecutor

        with ProcessPoolExecutor(max_workers=1, mp_context=mp.get_context('spawn')) as ex:
            return ex.submit(run_shard, prop, subname, shard, nshards, n, seed, tier).result()
    out = dict(
        sub=subname, shard=shard, evaluations=0, cases=0, rejected={}, classes={}, nontrivial=[],
        samples=[], failures=[], skipped=0, harness_error=None, wall=0.0, excluded_known=0,
    )
    t0 = time.time()
    try:
        mod = load_check(prop)
        sub = next(s for s in mod.SUBCHECKS if s.name == subname)
        known = load_known(prop)
        limit = sub.quick_time if tier == 'quick' else sub.thorough_time
        rejected = collections.Counter()
        classes = collections.Counter()
        nontriv = set()
        perbucket = collections.Counter()

        def one(spec):
            if time.time() - t0 > limit or _POISONED[0]:
                out['skipped'] += 1
                return
            out['cases'] += 1
            kind, res = eval_case(sub, spec)
            if kind == 'timeout':
                out['skipped'] += 1
                classes['case-cpu-timeout(inconclusive; rest of the shard skipped)'] += 1
                _POISONED[0] = True
                return
            if kind == 'reject':
                rejected[(res or '')[:60]] += 1
                return
            if kind == 'fail':
                v = res
                out['evaluations'] += 1
                if any(matches_known(mod, e, subname, spec, v.clause) for e in known):
                    out['excluded_known'] += 1
                    classes['known-finding:' + v.clause[:60]] += 1
                    return
                if perbucket[v.clause] < MAX_FAIL_PER_BUCKET:
                    perbucket[v.clause] += 1
                    out['failures'].append(
                        dict(spec=spec, clause=v.clause, detail=v.detail, observed=_jsonable(v.observed), expected=_jsonable(v.expected))
                    )
                return
            info = res
            out['evaluations'] += max(1, info.evals)
            for c in info.classes:
                classes[c] += 1
            if info.nontrivial:
                k = info.key or spec_hash(spec)
                if k not in nontriv:
                    nontriv.add(k)
                    if len(out['samples']) < 3:
                        out['samples'].append(_jsonable(info.render if info.render is not None else spec))

        if sub.enumerate is not None:
            for i, spec in enumerate(sub.enumerate(tier)):
                if i % nshards == shard:
                    one(spec)
        if n > 0 and sub.strategy is not None:
            import hypothesis
            from hypothesis import HealthCheck, Phase, given, settings

            @hypothesis.seed(seed)
            @settings(
                max_examples=n,
                database=None,
                deadline=None,
                derandomize=False,
                report_multiple_bugs=False,
                phases=[Phase.generate],
                suppress_health_check=[HealthCheck.too_slow, HealthCheck.data_too_large, HealthCheck.large_base_example],
            )
            @given(sub.strategy())
            def test(spec):
                one(spec)

            test()
        out['rejected'] = dict(rejected)
        out['classes'] = dict(classes)
        out['nontrivial'] = sorted(nontriv)
    except HarnessError as e:
        out['harness_error'] = f'HarnessError: {e}'
    except BaseException as e:  # noqa
        out['harness_error'] = traceback.format_exc()
    out['wall'] = time.time() - t0
    return out


def write_replay(prop, subname, spec, clause, detail, observed, expected):
    d = os.path.join(VERIF_DIR, 'replays', prop)
    os.makedirs(d, exist_ok=True)
    body = dict(property=prop, subcheck=subname, clause=clause, detail=detail, observed=observed, expected=expected, spec=spec)
    h = spec_hash([subname, clause, spec])
    path = os.path.join(d, f'{h}.json')
    with open(path, 'w') as f:
        json.dump(body, f, indent=1, default=str)
    return path


def replay_file(mod, path):
    with open(path) as f:
        body = json.load(f)
    sub = next(s for s in mod.SUBCHECKS if s.name == body['subcheck'])
    return body, sub, eval_case(sub, body['spec'])


def main(argv=None):
    ap = argparse.ArgumentParser()
    ap.add_argument('prop')
    ap.add_argument('--tier', default=os.environ.get('VERIF_TIER', 'quick'), choices=['quick', 'thorough'])
    ap.add_argument('--replay')
    ap.add_argument('--sub', action='append')
    ap.add_argument('--examples', type=int)
    ap.add_argument('--workers', type=int, default=int(os.environ.get('PV_WORKERS', '16')))
    ap.add_argument('--no-evidence', action='store_true')
    ap.add_argument('--inline', action='store_true', help='run shards in this process (debugging)')
    args = ap.parse_args(argv)
    prop = args.prop.upper()
    if argv is None and os.environ.get('PYTHONHASHSEED') != '0':
        # pharmpy has set-iteration-order dependent behaviour in places: the parent (regress replays, known
        # finding confirmation, shrinking, --replay) must see the same string hashing as the workers
        env = dict(os.environ, PYTHONHASHSEED='0')
        os.execve(sys.executable, [sys.executable, '-m', 'pv.run'] + sys.argv[1:], env)
    os.environ.setdefault('PYTHONHASHSEED', '0')
    limit_address_space()
    try:
        base_seed = int(os.environ.get('VERIF_SEED', '1') or '1')
    except ValueError:
        base_seed = 1
    t0 = time.time()
    try:
        mod = load_check(prop)
    except Exception:
        traceback.print_exc()
        print(f'HARNESS-ERROR property={prop} cannot import check module')
        return 2

    if args.replay:
        try:
            body, sub, (kind, res) = replay_file(mod, args.replay)
        except (HarnessError, Exception):
            traceback.print_exc()
            return 2
        if kind == 'fail':
            print(f'replay: violation clause={res.clause} detail={res.detail}')
            print(f'VIOLATION property={prop} replay={args.replay}')
            return 1
        print(f'replay: {kind}')
        return 0

    # --- self checks -------------------------------------------------------------
    if hasattr(mod, 'selfcheck'):
        try:
            mod.selfcheck()
        except Exception:
            traceback.print_exc()
            print(f'HARNESS-ERROR property={prop} oracle self-check failed')
            return 2

    known = load_known(prop)
    violations = []  # (subname, clause, path)
    notes = []

    # --- regression specs (fixed findings and earlier shrunk failures) -------------
    regdir = os.path.join(VERIF_DIR, 'regress', prop)
    n_regress = 0
    if os.path.isdir(regdir):
        for fn in sorted(os.listdir(regdir)):
            if not fn.endswith('.json'):
                continue
            path = os.path.join(regdir, fn)
            try:
                body, sub, (kind, res) = replay_file(mod, path)
            except Exception:
                traceback.print_exc()
                print(f'HARNESS-ERROR property={prop} regress file {fn}')
                return 2
            n_regress += 1
            if kind == 'fail':
                if any(matches_known(mod, e, body['subcheck'], body['spec'], res.clause) for e in known):
                    continue
                print(f'regress {fn}: clause={res.clause} {res.detail}')
                violations.append((body['subcheck'], res.clause, path))

    # --- known findings: re-confirm and announce ------------------------------------
    for e in known:
        if e.get('status') != 'known' or e.get('alias_of'):
            continue  # aliases let the same finding match in another sub-check; announced once
        sub = next((s for s in mod.SUBCHECKS if s.name == e.get('subcheck')), None)
        if sub is None or 'spec' not in e:
            print(f"KNOWN-FINDING: property={prop} {e['what']}")
            continue
        kind, res = eval_case(sub, e['spec'])
        if kind == 'fail' and matches_known(mod, e, sub.name, e['spec'], res.clause):
            print(f"KNOWN-FINDING: property={prop} {e['what']}")
        else:
            notes.append(f"stale known finding {e.get('id')}: minimal spec no longer fails ({kind})")
            print(f"NOTE: property={prop} known finding {e.get('id')} no longer reproduces on this tree")

    # --- generated search -----------------------------------------------------------
    subs = [s for s in mod.SUBCHECKS if not args.sub or s.name in args.sub]
    tasks = []
    for s in subs:
        n = args.examples if args.examples is not None else (s.quick if args.tier == 'quick' else s.thorough)
        if s.strategy is None:
            n = 0
        nshards = max(1, min(s.max_shards, args.workers, max(1, n // 8) if s.enumerate is None else s.max_shards))
        per = (n + nshards - 1) // nshards if n else 0
        for i in range(nshards):
            tasks.append((prop, s.name, i, nshards, per, derive_seed(base_seed, prop, s.name, i), args.tier))

    results = []
    if args.inline or args.workers <= 1:
        for t in tasks:
            results.append(run_shard(*t))
    else:
        import multiprocessing as mp
        from concurrent.futures import ProcessPoolExecutor

        ctx = mp.get_context('spawn')
        with ProcessPoolExecutor(max_workers=min(args.workers, len(tasks)), mp_context=ctx) as ex:
            futs = [ex.submit(run_shard, *t) for t in tasks]
            for f in futs:
                try:
                    results.append(f.result())
                except Exception:
                    results.append(dict(sub='?', harness_error=traceback.format_exc()))

    herr = [r for r in results if r.get('harness_error')]
    if herr:
        for r in herr[:3]:
            print(f"HARNESS-ERROR property={prop} sub={r.get('sub')} shard={r.get('shard')}\n{r['harness_error']}")
        return 2

    # --- merge ----------------------------------------------------------------------
    per_sub = {}
    tot_eval = 0
    nontriv_all = set()
    samples = []
    classes = collections.Counter()
    rejected = collections.Counter()
    excluded_known = 0
    skipped = 0
    buckets = collections.defaultdict(list)
    for r in results:
        ps = per_sub.setdefault(r['sub'], dict(evaluations=0, cases=0, distinct_nontrivial=set(), rejected=0, skipped=0, wall=0.0))
        ps['evaluations'] += r['evaluations']
        ps['cases'] += r['cases']
        ps['distinct_nontrivial'].update(r['nontrivial'])
        ps['rejected'] += sum(r['rejected'].values())
        ps['skipped'] += r['skipped']
        ps['wall'] = max(ps['wall'], r['wall'])
        tot_eval += r['evaluations']
        skipped += r['skipped']
        excluded_known += r['excluded_known']
        for k in r['nontrivial']:
            nontriv_all.add((r['sub'], k))
        for s in r['samples']:
            samples.append(dict(subcheck=r['sub'], case=s))
        for k, v in r['classes'].items():
            classes[f"{r['sub']}:{k}"] += v
        for k, v in r['rejected'].items():
            rejected[f"{r['sub']}:{k}"] += v
        for f in r['failures']:
            buckets[(r['sub'], f['clause'])].append(f)
    # thin samples: at most 3 per sub-check, 12 total
    seen = collections.Counter()
    thin = []
    for s in samples:
        if seen[s['subcheck']] < 3:
            seen[s['subcheck']] += 1
            thin.append(s)
    samples = thin[:14]

    # --- shrink + report failures -----------------------------------------------------
    max_evals = 150 if args.tier == 'quick' else 1500
    for (subname, clause), fails in sorted(buckets.items()):
        sub = next(s for s in mod.SUBCHECKS if s.name == subname)
        fails.sort(key=lambda f: len(json.dumps(f['spec'], default=str)))
        f0 = fails[0]

        def still(spec, _clause=clause, _sub=sub):
            kind, res = eval_case(_sub, spec)
            # a shrunk spec must stay an UNLISTED violation: shrinking into the shape of a known finding would
            # replace the reproduction of a new defect by one of a listed defect
            return kind == 'fail' and res.clause == _clause and not any(matches_known(mod, e, _sub.name, spec, res.clause) for e in known)

        tshr = time.time()
        try:
            small, _ = shrink(f0['spec'], still, max_evals=max_evals)
            kind, res = eval_case(sub, small)
            if kind != 'fail':
                small, res = f0['spec'], None
        except Exception:
            small, res = f0['spec'], None
        detail = res.detail if res is not None else f0['detail']
        observed = _jsonable(res.observed) if res is not None else f0['observed']
        expected = _jsonable(res.expected) if res is not None else f0['expected']
        path = write_replay(prop, subname, small, clause, detail, observed, expected)
        print(f'violation sub={subname} clause={clause} n={len(fails)} shrink_s={time.time() - tshr:.1f}\n  detail: {str(detail)[:600]}\n  observed: {str(observed)[:400]}\n  expected: {str(expected)[:400]}')
        violations.append((subname, clause, path))

    wall = time.time() - t0
    # --- evidence ----------------------------------------------------------------------
    extra = {}
    if hasattr(mod, 'extra_coverage'):
        try:
            extra = mod.extra_coverage(results) or {}
        except Exception:
            extra = {}
    coverage = dict(
        evaluations=int(tot_eval),
        distinct_nontrivial=len(nontriv_all),
        rule=mod.RULE,
        samples=samples,
        subchecks={
            k: dict(evaluations=v['evaluations'], cases=v['cases'], distinct_nontrivial=len(v['distinct_nontrivial']), rejected=v['rejected'], skipped_time_budget=v['skipped'], wall_s=round(v['wall'], 1))
            for k, v in per_sub.items()
        },
        classes=dict(sorted(classes.items())),
        rejected=dict(rejected.most_common(40)),
        excluded_known=excluded_known,
        skipped_time_budget=skipped,
        regress_replayed=n_regress,
        buckets=[dict(subcheck=s, clause=c, replay=os.path.relpath(p, VERIF_DIR)) for s, c, p in violations],
        notes=notes,
    )
    coverage.update(extra)
    ev = dict(
        property_id=prop,
        tier=args.tier,
        seed=base_seed,
        level=mod.LEVEL,
        coverage=coverage,
        assumptions=list(getattr(mod, 'ASSUMPTIONS', [])),
        wall_s=round(wall, 2),
        violations=len(violations),
    )
    if not args.no_evidence:
        os.makedirs(os.path.join(VERIF_DIR, 'evidence'), exist_ok=True)
        with open(os.path.join(VERIF_DIR, 'evidence', f'{prop}.json'), 'w') as f:
            json.dump(ev, f, indent=1, default=str)
    print(
        f'{prop} tier={args.tier} seed={base_seed} evaluations={tot_eval} distinct_nontrivial={len(nontriv_all)} '
        f'rejected={sum(rejected.values())} excluded_known={excluded_known} skipped={skipped} violations={len(violations)} wall={wall:.1f}s'
    )
    if violations:
        for subname, clause, path in violations:
            print(f'VIOLATION property={prop} replay={path}')
        return 1
    if tot_eval == 0:
        print(f'HARNESS-ERROR property={prop} nothing evaluated')
        return 2
    return 0


if __name__ == '__main__':
    sys.exit(main())
