"""E6 -- schedule-owning deterministic scheduler with simulated threading / fcntl primitives.

Virtual threads are real OS threads that run strictly one at a time: a token is passed
between the scheduler (the calling = main thread) and exactly one virtual thread.  Every
simulated primitive operation (`Lock.acquire/release`, `Condition.wait/notify`, `os.open`,
`os.close`, `fcntl.lockf`, explicit `marker`) first *parks* the calling virtual thread,
declaring the operation it is about to perform together with an `enabled()` predicate.  The
scheduler picks one parked thread whose operation is enabled (a blocked thread is simply a
thread whose next operation is not enabled), hands it the token, and the thread executes the
operation atomically and runs on to its next park.  The choice is delegated to a `chooser`
callback, so the caller owns the schedule (choice sequence from a JSON spec, DFS, ...).

Simulated kernel (`Kernel`): POSIX record locks on whole files per (process, inode):
SH/EX compatibility, atomic conversion (the old lock stays while a conversion waits),
release of ALL locks of a process on a file when ANY descriptor of that file is closed,
EAGAIN for LOCK_NB, EDEADLK when a blocking request would close a cycle in the process-level
wait-for graph at the moment it would block (Linux: owner = open file table, i.e. process,
checked each time the request is (re)tried).  fds are the lowest free integer >= 3.

Nothing here imports pharmpy.  A module under test is loaded by `SimProcess.load_module`
as a fresh module instance whose `import threading / os / fcntl` resolve to the simulated
versions (through a private `__import__`), so no global state is patched.
"""

from __future__ import annotations

import _thread
import builtins
import errno
import os as _real_os
import threading as _real_threading
import types

from .core import HarnessError

LOCK_SH, LOCK_EX, LOCK_NB, LOCK_UN = 1, 2, 4, 8
try:  # use the platform's values (the module under test combines them with |)
    import fcntl as _real_fcntl

    LOCK_SH, LOCK_EX, LOCK_NB, LOCK_UN = _real_fcntl.LOCK_SH, _real_fcntl.LOCK_EX, _real_fcntl.LOCK_NB, _real_fcntl.LOCK_UN
except Exception:  # pragma: no cover
    _real_fcntl = None


class Kill(BaseException):
    """Raised inside a parked virtual thread to unwind it at the end of a case."""


class Op:
    __slots__ = ('kind', 'obj', 'enabled', 'blocking')

    def __init__(self, kind, obj=None, enabled=None, blocking=False):
        self.kind = kind
        self.obj = obj
        self.enabled = enabled  # None = always enabled
        self.blocking = blocking  # True: being disabled here means "blocked in a primitive"

    def is_enabled(self):
        return True if self.enabled is None else bool(self.enabled())

    def desc(self):
        return self.kind if self.obj is None else f'{self.kind}({self.obj.name})'


_START = Op('start')


class Worker:
    """A reusable OS thread.  It sleeps on `sem` until it is handed the token; `vt` then names the
    virtual thread to run (None = exit)."""

    def __init__(self):
        self.sem = _thread.allocate_lock()
        self.sem.acquire()
        self.vt = None
        self.thread = _real_threading.Thread(target=self._loop, name='pv-sched-worker', daemon=True)
        self.thread.start()
        self.ident = self.thread.ident

    def _loop(self):
        while True:
            self.sem.acquire()
            vt = self.vt
            if vt is None:
                return
            self.vt = None
            vt._boot()


class WorkerPool:
    """OS threads for the virtual threads of one case; `close()` joins them all (no OS thread
    outlives the case)."""

    def __init__(self):
        self.free = []
        self.all = []
        self.closed = False

    def take(self):
        if self.closed:
            raise HarnessError('worker pool already closed')
        if self.free:
            return self.free.pop()
        w = Worker()
        self.all.append(w)
        return w

    def give_back(self, w):
        self.free.append(w)

    def close(self):
        self.closed = True
        for w in self.all:
            if w.vt is not None:
                raise HarnessError('closing worker pool while a virtual thread is assigned')
            w.sem.release()
        for w in self.all:
            w.thread.join(timeout=10)
            if w.thread.is_alive():
                raise HarnessError('an OS thread outlived its case')


class VThread:
    def __init__(self, sched, proc, gid, fn):
        self.sched = sched
        self.proc = proc
        self.gid = gid
        self.ident = 1000 * (proc.pid + 1) + gid + 1  # what get_ident() returns
        self.fn = fn
        self.worker = sched.pool.take()
        self.worker.vt = self
        self.sem = self.worker.sem
        self.os_ident = self.worker.ident
        self.pending = _START
        self.done = False
        self.killed = False
        self.error = None
        self.log = []  # (kind, result) of the executed operations that still matter (see c15)
        self.ncreated = 0

    def _boot(self):
        # runs on the worker thread, holding the token
        try:
            if not self.sched.killing:
                self.pending = None
                self.fn(self)
        except Kill:
            pass
        except BaseException as e:  # noqa: harness-side failure inside the virtual thread
            import traceback

            self.error = f'{type(e).__name__}: {e}\n{traceback.format_exc()}'
        finally:
            self.done = True
            self.pending = None
            self.sched.main_sem.release()


class Scheduler:
    """One instance per execution (case or DFS replay)."""

    def __init__(self, pool, max_steps=6000):
        self.pool = pool
        self.main_sem = _thread.allocate_lock()
        self.main_sem.acquire()
        self.threads = []
        self.procs = []
        self.current = None
        self.killing = False
        self.dead = False
        self.steps = 0
        self.max_steps = max_steps
        self.kernel = Kernel(self)
        self.trace = []  # gid per step
        self.switches = 0
        self.local_quiet = False
        self.main_ident = _thread.get_ident()

    # -- construction -------------------------------------------------------------------
    def add_process(self):
        p = SimProcess(self, len(self.procs))
        self.procs.append(p)
        return p

    def add_thread(self, proc, fn):
        vt = VThread(self, proc, len(self.threads), fn)
        proc.nthreads += 1
        self.threads.append(vt)
        return vt

    # -- called from virtual threads -------------------------------------------------------
    def me(self):
        """The calling virtual thread, or None when the scheduler is winding down / the call
        comes from outside (module import, garbage collection after the case)."""
        if self.dead:
            return None
        vt = self.current
        if vt is None or vt.os_ident != _thread.get_ident():
            if self.killing:
                return None
            if _thread.get_ident() == self.main_ident:
                return None  # module-level code / gc in the scheduler thread
            raise HarnessError('simulated primitive called from an unknown OS thread')
        if vt.killed:
            return None
        return vt

    def park(self, vt, op):
        vt.pending = op
        self.main_sem.release()
        vt.sem.acquire()
        if self.killing:
            vt.killed = True
            raise Kill()
        vt.pending = None

    def new_name(self, prefix):
        """Object names are stable under reordering of unrelated creations: they are made of the
        creating thread and its private creation counter."""
        vt = None
        try:
            vt = self.me()
        except HarnessError:
            vt = None
        if vt is None:
            self._ninit = getattr(self, '_ninit', 0) + 1
            return f'{prefix}:i{self._ninit}'
        vt.ncreated += 1
        return f'{prefix}:t{vt.gid}.{vt.ncreated}'

    # -- the scheduler loop ------------------------------------------------------------------
    def enabled_threads(self):
        return [vt for vt in self.threads if not vt.done and vt.pending is not None and vt.pending.is_enabled()]

    def run(self, chooser, after_step=None):
        """chooser(sched, ordered_enabled) -> VThread or None (None = stop exploring here).
        `ordered_enabled` lists the thread that ran last first (if enabled) then by gid.
        Returns 'terminal' | 'stopped' | 'bound'."""
        self.main_ident = _thread.get_ident()
        last = None
        while True:
            en = self.enabled_threads()
            if not en:
                return 'terminal'
            if self.steps >= self.max_steps:
                return 'bound'
            if last is not None and last in en:
                en = [last] + [v for v in en if v is not last]
            vt = chooser(self, en)
            if vt is None:
                return 'stopped'
            if last is not None and vt is not last:
                self.switches += 1
            self.current = vt
            self.steps += 1
            self.trace.append(vt.gid)
            vt.sem.release()
            self.main_sem.acquire()
            self.current = None
            last = vt
            if vt.error is not None:
                raise HarnessError('error inside virtual thread %d: %s' % (vt.gid, vt.error))
            if after_step is not None:
                after_step(vt)

    def shutdown(self):
        """Unwind every parked virtual thread (one at a time) and return the OS threads to the pool."""
        self.killing = True
        for vt in self.threads:
            if not vt.done:
                self.current = vt
                vt.sem.release()
                if not self.main_sem.acquire(timeout=10):
                    self.dead = True
                    raise HarnessError(f'virtual thread {vt.gid} did not unwind')
        self.current = None
        self.dead = True
        for vt in self.threads:
            if vt.worker is not None:
                self.pool.give_back(vt.worker)
                vt.worker = None


# -----------------------------------------------------------------------------------------
# simulated threading primitives


class SimLock:
    kind = 'Lock'

    def __init__(self, sched, proc=None):
        self.sched = sched
        self.proc = proc
        self.name = sched.new_name('L')
        self.owner = None
        self.quiet_release = False  # exhaustive mode: release is not a scheduling point

    def _park(self, vt, op):
        """Scheduling point -- skipped in `local_quiet` mode when the object belongs to a process with
        a single virtual thread (nobody else can observe it) and the operation does not block."""
        p = self.proc
        if self.sched.local_quiet and p is not None and p.nthreads == 1 and op.is_enabled():
            return
        self.sched.park(vt, op)

    def _free_for(self, vt):
        return self.owner is None

    def acquire(self, blocking=True, timeout=-1):
        vt = self.sched.me()
        if vt is None:
            return True
        if timeout is not None and timeout > 0:
            raise HarnessError('timeouts are not modelled')
        self._park(vt, Op('acquire' if blocking else 'tryacquire', self, (lambda: self._free_for(vt)) if blocking else None, blocking))
        ok = self._take(vt)
        vt.log.append(('acq', self.name, ok))
        return ok

    def _take(self, vt):
        if self.owner is None:
            self.owner = vt
            return True
        return False

    def release(self):
        vt = self.sched.me()
        if vt is None:
            return
        if not self.quiet_release:
            self._park(vt, Op('release', self))
        if self.owner is None:
            raise RuntimeError('release unlocked lock')
        self.owner = None
        vt.log.append(('rel', self.name, None))

    def locked(self):
        return self.owner is not None

    __enter__ = acquire

    def __exit__(self, *a):
        self.release()

    # Condition support
    def _is_owned_by(self, vt):
        return self.owner is not None  # like threading.Condition with a plain Lock

    def _release_save(self):
        self.owner = None
        return None

    def _acquire_restore(self, vt, saved):
        self.owner = vt

    def state(self):
        return (self.name, None if self.owner is None else self.owner.gid)


class SimRLock(SimLock):
    kind = 'RLock'

    def __init__(self, sched, proc=None):
        super().__init__(sched, proc)
        self.count = 0

    def _free_for(self, vt):
        return self.owner is None or self.owner is vt

    def _take(self, vt):
        if self.owner is None or self.owner is vt:
            self.owner = vt
            self.count += 1
            return True
        return False

    def release(self):
        vt = self.sched.me()
        if vt is None:
            return
        self._park(vt, Op('release', self))
        if self.owner is not vt:
            raise RuntimeError('cannot release un-acquired lock')
        self.count -= 1
        if self.count == 0:
            self.owner = None
        vt.log.append(('rel', self.name, None))

    def _is_owned_by(self, vt):
        return self.owner is vt

    def _release_save(self):
        saved = self.count
        self.count = 0
        self.owner = None
        return saved

    def _acquire_restore(self, vt, saved):
        self.owner = vt
        self.count = saved

    def state(self):
        return (self.name, None if self.owner is None else self.owner.gid, self.count)


class _Waiter:
    __slots__ = ('vt', 'notified')

    def __init__(self, vt):
        self.vt = vt
        self.notified = False


class SimCondition:
    kind = 'Condition'

    _park = SimLock._park

    def __init__(self, sched, lock=None, proc=None):
        self.sched = sched
        self.proc = proc
        self.lock = lock if lock is not None else SimRLock(sched, proc)
        self.name = sched.new_name('C')
        self.waiters = []

    def acquire(self, *a, **kw):
        return self.lock.acquire(*a, **kw)

    def release(self):
        return self.lock.release()

    def __enter__(self):
        return self.lock.acquire()

    def __exit__(self, *a):
        self.lock.release()

    def wait(self, timeout=None):
        vt = self.sched.me()
        if vt is None:
            return True
        if timeout is not None:
            raise HarnessError('timeouts are not modelled')
        self._park(vt, Op('wait-begin', self))
        if not self.lock._is_owned_by(vt):
            raise RuntimeError('cannot wait on un-acquired lock')
        w = _Waiter(vt)
        self.waiters.append(w)
        saved = self.lock._release_save()
        vt.log.append(('wait', self.name, None))
        self.sched.park(vt, Op('wait', self, lambda: w.notified and self.lock._free_for(vt), True))
        self.lock._acquire_restore(vt, saved)
        vt.log.append(('woken', self.name, None))
        return True

    def wait_for(self, predicate, timeout=None):
        r = predicate()
        while not r:
            self.wait(timeout)
            r = predicate()
        return r

    def notify(self, n=1):
        vt = self.sched.me()
        if vt is None:
            return
        self._park(vt, Op('notify', self))
        if not self.lock._is_owned_by(vt):
            raise RuntimeError('cannot notify on un-acquired lock')
        woken = 0
        while self.waiters and woken < n:  # FIFO like CPython
            self.waiters.pop(0).notified = True
            woken += 1
        vt.log.append(('notify', self.name, woken))

    def notify_all(self):
        self.notify(len(self.waiters) + 1)

    notifyAll = notify_all

    def state(self):
        return (self.name, tuple(w.vt.gid for w in self.waiters))


# -----------------------------------------------------------------------------------------
# simulated kernel: files, descriptors, POSIX record locks (whole file)


class Kernel:
    def __init__(self, sched):
        self.sched = sched
        self.name = 'kernel'
        self.files = {}  # normalised path -> inode number
        self.fds = {}  # pid -> {fd: inode}
        self.locks = {}  # inode -> {pid: 'SH' | 'EX'}
        self.blocked = {}  # gid -> (pid, inode, mode)  threads sleeping in a blocking lockf
        self.woken = set()  # gids of sleepers whose blocker changed: they retry
        self.history = []  # (op, pid, ...) for diagnostics

    def create(self, path):
        self.files.setdefault(_real_os.path.normpath(path), len(self.files) + 1)

    # -- pure model (also used directly by the self-check against the real kernel) ---------
    def m_open(self, pid, path):
        ino = self.files.get(_real_os.path.normpath(path))
        if ino is None:
            raise FileNotFoundError(errno.ENOENT, 'No such file or directory', path)
        table = self.fds.setdefault(pid, {})
        fd = 3
        while fd in table:
            fd += 1
        table[fd] = ino
        return fd

    def m_close(self, pid, fd):
        table = self.fds.setdefault(pid, {})
        if fd not in table:
            raise OSError(errno.EBADF, 'Bad file descriptor')
        ino = table.pop(fd)
        held = self.locks.get(ino, {})
        if pid in held:
            del held[pid]
            self._wake(ino)

    def conflicts(self, pid, ino, mode):
        return sorted(q for q, m in self.locks.get(ino, {}).items() if q != pid and (mode == 'EX' or m == 'EX'))

    def m_trylock(self, pid, fd, mode):
        """-> None on success, errno on failure (non-blocking semantics)."""
        table = self.fds.setdefault(pid, {})
        if fd not in table:
            return errno.EBADF
        ino = table[fd]
        if mode == 'UN':
            held = self.locks.get(ino, {})
            if pid in held:
                del held[pid]
                self._wake(ino)
            return None
        if self.conflicts(pid, ino, mode):
            return errno.EAGAIN
        held = self.locks.setdefault(ino, {})
        old = held.get(pid)
        held[pid] = mode
        if old == 'EX' and mode == 'SH':
            self._wake(ino)
        return None

    def _wake(self, ino):
        for gid, (_pid, i, _m) in self.blocked.items():
            if i == ino:
                self.woken.add(gid)

    def would_deadlock(self, pid, ino, mode):
        """Linux posix_locks_deadlock: follow 'owner of the blocking lock is itself sleeping on a
        lock owned by ...' until the requester is reached.  Owners are processes."""
        seen = set()
        frontier = list(self.conflicts(pid, ino, mode))
        while frontier:
            q = frontier.pop()
            if q == pid:
                return True
            if q in seen:
                continue
            seen.add(q)
            for _gid, (bp, bi, bm) in sorted(self.blocked.items()):
                if bp == q:
                    frontier.extend(self.conflicts(bp, bi, bm))
        return False

    # -- operations called by virtual threads (scheduling points) ---------------------------
    def open(self, proc, path, flags, mode=0o777):
        vt = self.sched.me()
        if vt is None:
            return 99
        if not getattr(proc, 'quiet_open', False):
            self.sched.park(vt, Op('open', self))
        fd = self.m_open(proc.pid, path)
        vt.log.append(('open', path, fd))
        self.history.append(('open', proc.pid, path, fd))
        return fd

    def close(self, proc, fd):
        vt = self.sched.me()
        if vt is None:
            return
        self.sched.park(vt, Op('close', self))
        vt.log.append(('close', fd, None))
        self.history.append(('close', proc.pid, fd))
        self.m_close(proc.pid, fd)

    def lockf(self, proc, fd, operation, length=0, start=0, whence=0):
        vt = self.sched.me()
        if vt is None:
            return
        if length or start or whence:
            raise HarnessError('only whole-file locks are modelled')
        nb = bool(operation & LOCK_NB)
        base = operation & ~LOCK_NB
        mode = {LOCK_SH: 'SH', LOCK_EX: 'EX', LOCK_UN: 'UN'}.get(base)
        if mode is None:
            raise ValueError('unrecognized lockf argument')
        pid = proc.pid
        self.sched.park(vt, Op('lockf', self))
        while True:
            err = self.m_trylock(pid, fd, mode)
            if err is None:
                vt.log.append(('lockf', fd, mode))
                self.history.append(('lockf', pid, fd, mode, 'ok'))
                return
            if err != errno.EAGAIN:
                vt.log.append(('lockf', fd, mode + ':E%d' % err))
                raise OSError(err, _real_os.strerror(err))
            if nb:
                vt.log.append(('lockf', fd, mode + ':EAGAIN'))
                self.history.append(('lockf', pid, fd, mode, 'EAGAIN'))
                raise BlockingIOError(errno.EAGAIN, 'Resource temporarily unavailable')
            ino = self.fds[pid][fd]
            if self.would_deadlock(pid, ino, mode):
                vt.log.append(('lockf', fd, mode + ':EDEADLK'))
                self.history.append(('lockf', pid, fd, mode, 'EDEADLK'))
                raise OSError(errno.EDEADLK, 'Resource deadlock avoided')
            # sleep until a conflicting lock is released or downgraded, then retry
            self.blocked[vt.gid] = (pid, ino, mode)
            self.woken.discard(vt.gid)
            gid = vt.gid
            try:
                self.sched.park(vt, Op('lockf-sleep', self, lambda: gid in self.woken, True))
            finally:
                self.blocked.pop(gid, None)
                self.woken.discard(gid)

    def state(self):
        return (
            tuple(sorted((pid, tuple(sorted(t.items()))) for pid, t in self.fds.items() if t)),
            tuple(sorted((ino, tuple(sorted(h.items()))) for ino, h in self.locks.items() if h)),
            tuple(sorted(self.blocked.items())),
            tuple(sorted(self.woken)),
        )

    def quiescent(self):
        return not any(self.fds.values()) and not any(self.locks.values()) and not self.blocked


# -----------------------------------------------------------------------------------------
# simulated process = fresh module instance with private threading / os / fcntl


class _OsProxy(types.ModuleType):
    def __init__(self, proc):
        super().__init__('os')
        self.__dict__['_proc'] = proc

    def __getattr__(self, name):
        return getattr(_real_os, name)

    def open(self, path, flags, mode=0o777, *, dir_fd=None):
        return self._proc.sched.kernel.open(self._proc, path, flags, mode)

    def close(self, fd):
        return self._proc.sched.kernel.close(self._proc, fd)


_CODE_CACHE = {}


class SimProcess:
    def __init__(self, sched, pid):
        self.sched = sched
        self.pid = pid
        self.quiet_open = False
        self.nthreads = 0
        thr = types.ModuleType('threading')
        thr.Lock = lambda: SimLock(sched, self)
        thr.RLock = lambda: SimRLock(sched, self)
        thr.Condition = lambda lock=None: SimCondition(sched, lock, self)
        thr.get_ident = self._get_ident
        thr.current_thread = _real_threading.current_thread
        self.threading = thr
        fc = types.ModuleType('fcntl')
        fc.LOCK_SH, fc.LOCK_EX, fc.LOCK_NB, fc.LOCK_UN = LOCK_SH, LOCK_EX, LOCK_NB, LOCK_UN
        fc.lockf = lambda fd, operation, length=0, start=0, whence=0: sched.kernel.lockf(self, fd, operation, length, start, whence)
        self.fcntl = fc
        self.os = _OsProxy(self)
        self.modules = {}

    def _get_ident(self):
        vt = self.sched.me()
        if vt is None:
            return _thread.get_ident()
        if vt.proc is not self:
            raise HarnessError('virtual thread runs code of another simulated process')
        return vt.ident

    def _import(self, name, globals=None, locals=None, fromlist=(), level=0):
        if level == 0:
            if name == 'threading':
                return self.threading
            if name == 'fcntl':
                return self.fcntl
            if name == 'os':
                return self.os
            if name in ('_thread', 'multiprocessing', 'asyncio', 'concurrent.futures'):
                raise HarnessError(f'module under test imports {name}: not modelled')
        return builtins.__import__(name, globals, locals, fromlist, level)

    def load_module(self, path, name):
        code = _CODE_CACHE.get(path)
        if code is None:
            with open(path) as f:
                src = f.read()
            code = _CODE_CACHE[path] = compile(src, path, 'exec')
        mod = types.ModuleType(f'{name}__simproc{self.pid}')
        mod.__file__ = path
        b = dict(vars(builtins))
        b['__import__'] = self._import
        mod.__dict__['__builtins__'] = b
        exec(code, mod.__dict__)
        self.modules[name] = mod
        return mod


def marker(sched, label='marker'):
    """Explicit scheduling point without effect (lock bodies)."""
    vt = sched.me()
    if vt is None:
        return
    sched.park(vt, Op(label))
    vt.log.append(('mark', label, None))


# -----------------------------------------------------------------------------------------
# canonical dump of shared python state of a module instance (for state caching)

_ATOMS = (type(None), bool, int, float, str, bytes)
_SKIP = (types.FunctionType, types.BuiltinFunctionType, types.MethodType, types.ModuleType, type)


def _cname(names, obj):
    """canonical object name: index of first appearance in the traversal"""
    n = names.get(obj.name)
    if n is None:
        n = names[obj.name] = len(names)
    return n


def dump(x, names=None, depth=0, seen=()):
    if isinstance(x, _ATOMS):
        return x
    if names is None:
        names = {}
    if isinstance(x, SimCondition):
        lk = x.lock
        return ('C', _cname(names, x), tuple(w.vt.gid for w in x.waiters), _cname(names, lk), None if lk.owner is None else lk.owner.gid, getattr(lk, 'count', 0))
    if isinstance(x, SimLock):
        return ('L', _cname(names, x), None if x.owner is None else x.owner.gid, getattr(x, 'count', 0))
    if isinstance(x, _SKIP):
        return None
    if id(x) in seen or depth > 10:
        return '<cycle>'
    seen = seen + (id(x),)
    if isinstance(x, dict):
        ks = list(x.keys())
        try:
            ks.sort()
        except TypeError:
            ks.sort(key=repr)
        return ('d', tuple((dump(k, names, depth + 1, seen), dump(x[k], names, depth + 1, seen)) for k in ks))
    if isinstance(x, (list, tuple)):
        return ('s', tuple(dump(v, names, depth + 1, seen) for v in x))
    if isinstance(x, (set, frozenset)):
        return ('S', tuple(sorted((dump(v, names, depth + 1, seen) for v in x), key=repr)))
    d = getattr(x, '__dict__', None)
    if isinstance(d, dict):
        return (type(x).__name__, dump(d, names, depth + 1, seen))
    return type(x).__name__


def dump_module(mod, names=None):
    if names is None:
        names = {}
    out = []
    d = vars(mod)
    for k in sorted(d):
        v = d[k]
        if isinstance(v, _ATOMS) or isinstance(v, _SKIP) or k.startswith('__'):
            continue
        if getattr(type(v), '__module__', None) == mod.__name__:
            out.append((k, dump(v, names)))
    return tuple(out)
