"""Core types shared by all checks.

A *check module* (pv/checks/cXX.py) exposes

    PROPERTY = 'CXX'
    LEVEL = 'exploration' | 'fault_enumeration'
    RULE = '<how cases are generated and what makes one non-trivial>'
    ASSUMPTIONS = [...]
    SUBCHECKS = [SubCheck(...), ...]
    KNOWN_PREDICATES = {name: predicate(spec) -> bool}     (optional)
    def selfcheck() -> None                                 (optional; raise HarnessError)
    def extra_coverage() -> dict                            (optional)

A sub-check owns a Hypothesis strategy producing *JSON specs* and an oracle
`run(spec) -> CaseInfo`.  The oracle raises `Violation` when the property is broken on
that spec, `Reject` when the code under test refused the input with a documented error
(or the spec is outside the domain), and lets nothing else escape: calls into pharmpy are
wrapped by `guard()` which classifies exceptions.  Anything else that escapes is a
harness error (exit 2), never a violation.
"""

from __future__ import annotations

import hashlib
import json
import os
import traceback
from dataclasses import dataclass, field
from typing import Any, Callable, Optional


class Violation(Exception):
    """The property is violated on this spec.

    clause   -- stable identifier of the oracle clause (and call site for internal errors);
                together with the sub-check name it forms the *bucket*.
    """

    def __init__(self, clause: str, observed: Any = None, expected: Any = None, detail: str = ''):
        super().__init__(clause)
        self.clause = clause
        self.observed = observed
        self.expected = expected
        self.detail = detail


class Reject(Exception):
    """Input refused with a documented error / outside the domain: counted, not flagged."""

    def __init__(self, why: str = ''):
        super().__init__(why)
        self.why = why


class HarnessError(Exception):
    """Something is wrong with the machinery itself -> exit 2."""


@dataclass
class CaseInfo:
    nontrivial: bool = False
    classes: tuple = ()
    key: Optional[str] = None  # canonical identity for distinctness (default: spec hash)
    render: Any = None  # human readable rendering of the case for evidence samples
    evals: int = 1  # oracle evaluations performed inside this case


@dataclass
class SubCheck:
    name: str
    strategy: Callable[[], Any]  # () -> hypothesis strategy of JSON specs
    run: Callable[[Any], CaseInfo]
    quick: int = 200  # examples per tier (total over all shards)
    thorough: int = 5000
    max_shards: int = 16
    # optional exhaustive enumeration instead of / in addition to random generation:
    enumerate: Optional[Callable[[str], Any]] = None  # tier -> iterable of specs
    describe: str = ''
    # soft wall-clock guard per shard in seconds (turns remaining cases into 'skipped')
    quick_time: float = 150.0
    thorough_time: float = 1500.0


def spec_hash(spec: Any) -> str:
    return hashlib.sha256(json.dumps(spec, sort_keys=True, default=str).encode()).hexdigest()[:16]


# ---------------------------------------------------------------------------------------
# exception classification

_DOCUMENTED = (ValueError, NotImplementedError)


def innermost_pharmpy_frame(exc: BaseException) -> str:
    tb = traceback.extract_tb(exc.__traceback__)
    loc = None
    for fr in tb:
        fn = fr.filename.replace('\\', '/')
        if '/src/pharmpy/' in fn:
            loc = fn.rsplit('/src/pharmpy/', 1)[1] + ':' + fr.name
    return loc or 'outside-pharmpy'


class ResourceLimit(BaseException):
    """A case exceeded a resource budget of the runner (CPU seconds, address space). BaseException so that
    `except Exception` in oracles or in the code under test cannot turn it into a verdict; the runner counts
    the case as inconclusive."""


def guard(fn: Callable, *args, allowed=_DOCUMENTED, clause: str = 'internal-error', internal_is_violation=True, **kwargs):
    """Call into the code under test.

    allowed exception classes -> Reject (documented refusal);
    anything else -> Violation('<clause>:<Type>@<innermost pharmpy frame>') when
    internal_is_violation, else Reject.
    """
    try:
        return fn(*args, **kwargs)
    except (Violation, Reject, HarnessError):
        raise
    except allowed as e:
        raise Reject(f'{type(e).__name__}: {str(e)[:200]}')
    except RecursionError as e:
        if internal_is_violation:
            raise Violation(f'{clause}:RecursionError', detail=str(e)[:300])
        raise Reject('RecursionError')
    except MemoryError:
        # the per-process address space limit set by the runner was hit (runaway symbolic computation):
        # a budget hit, never a verdict
        raise ResourceLimit('memory')
    except Exception as e:  # noqa
        where = innermost_pharmpy_frame(e)
        if where == 'outside-pharmpy':
            # exception raised by harness code inside the guarded callable
            raise HarnessError(f'exception outside pharmpy in guarded call: {type(e).__name__}: {e}\n' + traceback.format_exc())
        if internal_is_violation:
            raise Violation(
                f'{clause}:{type(e).__name__}@{where}',
                detail=f'{type(e).__name__}: {str(e)[:500]}',
            )
        raise Reject(f'{type(e).__name__}@{where}')


def _from_lib(exc: BaseException) -> bool:
    tb = traceback.extract_tb(exc.__traceback__)
    if not tb:
        return False
    fn = tb[-1].filename
    return 'site-packages' in fn or '/lib/python' in fn


# ---------------------------------------------------------------------------------------
# generic JSON shrinker (bounded ddmin-like, structure preserving)


def _candidates(x):
    """Yield simpler variants of JSON value x (one local change each)."""
    if isinstance(x, list):
        n = len(x)
        # delete chunks, then single elements
        size = n // 2
        while size >= 1:
            for i in range(0, n, size):
                yield x[:i] + x[i + size :]
            size //= 2
        for i, v in enumerate(x):
            for c in _candidates(v):
                yield x[:i] + [c] + x[i + 1 :]
    elif isinstance(x, dict):
        for k in list(x.keys()):
            for c in _candidates(x[k]):
                y = dict(x)
                y[k] = c
                yield y
    elif isinstance(x, bool):
        if x:
            yield False
    elif isinstance(x, int):
        if x != 0:
            yield 0
            if abs(x) > 1:
                yield x // 2
                yield x - 1 if x > 0 else x + 1
    elif isinstance(x, float):
        if x != 0.0 and x == x:
            yield 0.0
            if x != 1.0:
                yield 1.0
            if x != round(x):
                yield float(round(x))
    elif isinstance(x, str):
        if len(x) > 1:
            yield x[: len(x) // 2]
            yield x[len(x) // 2 :]
            yield x[:-1]
            yield x[1:]


def shrink(spec, still_fails: Callable[[Any], bool], max_evals: int = 300):
    """Greedy fix-point over one-step simplifications; still_fails must be total."""
    evals = 0
    best = spec
    improved = True
    while improved and evals < max_evals:
        improved = False
        for cand in _candidates(best):
            if evals >= max_evals:
                break
            evals += 1
            try:
                ok = still_fails(cand)
            except Exception:
                ok = False
            if ok:
                best = cand
                improved = True
                break
    return best, evals


VERIF_DIR = os.path.dirname(os.path.dirname(os.path.abspath(__file__)))
REPO_DIR = os.environ.get('PV_REPO', '/repo')
