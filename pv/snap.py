"""E5 -- deep snapshot of a pharmpy Model.

    s = snapshot(model, memo=None, code=True)   -> Snapshot (mapping component -> canonical value)
    diff(s0, s1)                                -> list of component names that differ
    frame_digest(df)                            -> dict of components of one DataFrame

Components (each value is a str / tuple of plain values, comparable with ==):

    type, name, description, value_type
    dataset-identity        id() of the DataFrame object bound to the model (None without dataset)
    dataset-columns         column labels in order (repr)
    dataset-dtypes          dtype per column (str)
    dataset-index           digest of the index (type, dtype, name, values)
    dataset-values          digest per column of the raw values (to_numpy bytes; object columns by repr),
                            NaN-aware in the sense that an untouched buffer has unchanged bytes
    dataset-attrs           DataFrame.attrs
    datainfo                json of datainfo.to_dict()
    parameters, random_variables, statements, execution_steps   json of .to_dict()
    dependent_variables, observation_transformation             sorted items (serialized expressions)
    initial_individual_estimates                                frame digest (+ identity)
    internals               NONMEM models: name_map / compartment_map (the only mutable containers kept
                            in the frozen internals) and the old_* names
    code                    model.code (for NONMEM models: the stored control stream text)

The snapshot only *reads*: properties, to_dict(), to_numpy() (pandas 3: read-only views under
copy-on-write) -- nothing that fills a cache which is itself part of the snapshot.  `memo` (a dict)
lets two models that share component objects (m and m.replace(name=...)) share the serialisation work of
one point in time; never reuse a memo across a call into the code under test.
"""

from __future__ import annotations

import hashlib
import json

ORDER = (
    'type', 'name', 'description', 'value_type',
    'dataset-identity', 'dataset-columns', 'dataset-dtypes', 'dataset-index', 'dataset-values', 'dataset-attrs',
    'datainfo', 'parameters', 'random_variables', 'statements', 'execution_steps',
    'dependent_variables', 'observation_transformation', 'iie-identity', 'initial_individual_estimates', 'internals', 'code',
)


class Snapshot(dict):
    """component -> canonical value; equality is dict equality"""

    def key(self, without=('dataset-identity', 'iie-identity')):
        """content digest (identity-free) -- used for 'did the result differ from the input'"""
        h = hashlib.sha256()
        for k in ORDER:
            if k in without or k not in self:
                continue
            h.update(k.encode())
            h.update(repr(self[k]).encode())
        return h.hexdigest()[:16]


def _digest(b: bytes) -> str:
    return hashlib.sha256(b).hexdigest()[:20]


def _values_digest(arr) -> str:
    import numpy as np

    if arr.dtype.kind in 'biufcmM':
        a = np.ascontiguousarray(arr)
        return _digest(a.tobytes())
    # object / string columns: element-wise repr (bytes of an object array are pointers)
    h = hashlib.sha256()
    for v in arr.tolist():
        h.update(repr(v).encode())
        h.update(b'\x00')
    return 'o' + h.hexdigest()[:20]


def frame_digest(df, prefix='dataset') -> dict:
    out = {}
    if df is None:
        for k in ('identity', 'columns', 'dtypes', 'index', 'values', 'attrs'):
            out[f'{prefix}-{k}'] = None
        return out
    import pandas as pd

    out[f'{prefix}-identity'] = id(df)
    if isinstance(df, pd.Series):
        out[f'{prefix}-columns'] = (repr(df.name),)
        out[f'{prefix}-dtypes'] = (str(df.dtype),)
        cols = [df.to_numpy()]
    else:
        out[f'{prefix}-columns'] = tuple(repr(c) for c in df.columns)
        out[f'{prefix}-dtypes'] = tuple(str(t) for t in df.dtypes)
        cols = [df.iloc[:, i].to_numpy() for i in range(df.shape[1])]
    ix = df.index
    out[f'{prefix}-index'] = (type(ix).__name__, str(getattr(ix, 'dtype', '')), repr(getattr(ix, 'names', None)), len(ix), _values_digest(ix.to_numpy()))
    out[f'{prefix}-values'] = tuple(_values_digest(c) for c in cols)
    out[f'{prefix}-attrs'] = repr(sorted((repr(k), repr(v)) for k, v in df.attrs.items())) if df.attrs else ''
    return out


def _json(x) -> str:
    return json.dumps(x, sort_keys=True, default=repr)


def _ser(obj, memo, what):
    """canonical text of an immutable component through its to_dict(); falls back to repr when the
    component cannot serialise itself (the fallback is deterministic as well)"""
    k = ('ser', id(obj))
    if memo is not None and k in memo:
        return memo[k][1]
    try:
        s = _json(obj.to_dict())
    except Exception as e:  # serialisation is not what C06 judges
        s = f'<no to_dict: {type(e).__name__}> ' + repr(obj)
    if memo is not None:
        memo[k] = (obj, s)  # keep obj alive so that the id stays unique
    return s


def _expr_items(mapping):
    out = []
    for k, v in mapping.items():
        ks = k.serialize() if hasattr(k, 'serialize') else repr(k)
        vs = v.serialize() if hasattr(v, 'serialize') else repr(v)
        out.append((ks, vs))
    return tuple(out)


def snapshot(model, memo=None, code=True) -> Snapshot:
    s = Snapshot()
    s['type'] = type(model).__module__ + '.' + type(model).__name__
    s['name'] = model.name
    s['description'] = model.description
    s['value_type'] = repr(model.value_type)
    df = model.dataset
    k = ('frame', id(df))
    if df is None:
        s.update(frame_digest(None))
    elif memo is not None and k in memo:
        s.update(memo[k][1])
    else:
        fd = frame_digest(df)
        if memo is not None:
            memo[k] = (df, fd)
        s.update(fd)
    s['datainfo'] = _ser(model.datainfo, memo, 'datainfo')
    s['parameters'] = _ser(model.parameters, memo, 'parameters')
    s['random_variables'] = _ser(model.random_variables, memo, 'random_variables')
    s['statements'] = _ser(model.statements, memo, 'statements')
    s['execution_steps'] = _ser(model.execution_steps, memo, 'execution_steps')
    s['dependent_variables'] = tuple((str(k_), v) for k_, v in model.dependent_variables.items())
    s['observation_transformation'] = _expr_items(model.observation_transformation)
    iie = model.initial_individual_estimates
    if iie is None:
        s['iie-identity'] = None
        s['initial_individual_estimates'] = None
    else:
        d = frame_digest(iie, prefix='iie')
        s['iie-identity'] = d.pop('iie-identity')
        s['initial_individual_estimates'] = tuple(sorted((k_, repr(v)) for k_, v in d.items()))
    internals = getattr(model, '_internals', None)
    s['internals'] = _internals(internals)
    if code:
        ck = ('code', type(model), id(internals), id(model.parameters), id(model.random_variables), id(model.statements),
              id(model.execution_steps), id(model.datainfo), id(model.dependent_variables), id(model.observation_transformation), id(iie), repr(model.value_type))
        if memo is not None and ck in memo:
            s['code'] = memo[ck][1]
        else:
            try:
                c = model.code
            except Exception as e:  # noqa -- not C06's business for the *argument*; deterministic marker
                c = f'<code raises {type(e).__name__}>'
            if memo is not None:
                memo[ck] = (model, c)
            s['code'] = c
    return s


def _internals(internals):
    if internals is None:
        return None
    out = [type(internals).__name__]
    for attr in ('name_map', 'compartment_map'):
        v = getattr(internals, attr, None)
        if isinstance(v, dict):
            out.append((attr, tuple((repr(a), repr(b)) for a, b in v.items())))
        else:
            out.append((attr, repr(v)))
    for attr in ('old_name', 'old_description'):
        if hasattr(internals, attr):
            out.append((attr, repr(getattr(internals, attr))))
    return tuple(out)


def diff(s0: Snapshot, s1: Snapshot):
    out = []
    for k in ORDER:
        if s0.get(k) != s1.get(k):
            out.append(k)
    for k in s0.keys() | s1.keys():
        if k not in ORDER and s0.get(k) != s1.get(k):
            out.append(k)
    return out


def describe(s0: Snapshot, s1: Snapshot, comp: str, limit=300):
    """short human readable (before, after) for one differing component"""
    a, b = s0.get(comp), s1.get(comp)
    if isinstance(a, str) and isinstance(b, str) and len(a) + len(b) > limit:
        # first point of difference
        i = 0
        n = min(len(a), len(b))
        while i < n and a[i] == b[i]:
            i += 1
        lo = max(0, i - 40)
        return a[lo : i + 80], b[lo : i + 80]
    return a, b
