"""E1 for whole models: numeric evaluation of a pharmpy Model at one input point.

    point = sample_point(model, k)         deterministic k-th input point for the model
    res   = evaluate(model, point)         -> ModelValue

ModelValue:
    .vars      name -> float for every assigned symbol (final value after sequential execution;
               UNDEF marker for symbols without value)
    .rhs       compartment name -> d/dt (ODE right-hand side at point.amounts), {} if no ODE
    .doses     compartment name -> list of (kind, amount-symbol, admid, rate|duration value|None)
    .lag/.bio  compartment name -> float
    .y         value(s) of the dependent variable(s): dv name -> float

Two models are *function-equivalent at a point* when y agree (and, for ODE models, rhs/doses/
lag/bio agree by compartment name) -- see `compare()`.
"""

from __future__ import annotations

import math
from dataclasses import dataclass, field

from .irsem import EvalError, Undefined, close, ev

UNDEF = object()


@dataclass
class Point:
    params: dict  # parameter name -> value (all model parameters incl. omegas/sigmas)
    etas: dict
    eps: dict
    data: dict  # column name -> value
    amounts: dict  # compartment name -> amount value (for 'A_<name>(t)')
    t: float = 1.5


@dataclass
class ModelValue:
    vars: dict = field(default_factory=dict)
    rhs: dict = field(default_factory=dict)
    doses: dict = field(default_factory=dict)
    lag: dict = field(default_factory=dict)
    bio: dict = field(default_factory=dict)
    y: dict = field(default_factory=dict)
    undefined: dict = field(default_factory=dict)


def _frac(i, k):
    # deterministic pseudo-random in (0,1): golden-ratio sequence
    x = (0.6180339887498949 * (i + 1) * (k + 3) + 0.137 * (k + 1)) % 1.0
    return 0.05 + 0.9 * x


def sample_point(model, k=0, data_row=None, amounts=None) -> Point:
    """Deterministic k-th point: parameters within their bounds (not at the initial estimate),
    etas/eps in [-0.4, 0.4], data = given row or a row of the dataset (k-th observation-ish row) or
    generic positive values, amounts positive."""
    params = {}
    rv_params = set(model.random_variables.parameter_names)
    for i, p in enumerate(model.parameters):
        lo, up, init = float(p.lower), float(p.upper), float(p.init)
        if p.fix or p.name in rv_params:
            params[p.name] = init
            continue
        f = _frac(i, k)
        if math.isfinite(lo) and math.isfinite(up):
            v = lo + (up - lo) * f
        elif math.isfinite(lo):
            v = lo + (abs(init - lo) + 0.1) * (0.5 + f)
        elif math.isfinite(up):
            v = up - (abs(up - init) + 0.1) * (0.5 + f)
        else:
            v = init + (abs(init) + 0.1) * (f - 0.5)
        params[p.name] = v
    etas = {n: 0.8 * (_frac(i + 20, k) - 0.5) for i, n in enumerate(model.random_variables.etas.names)}
    eps = {n: 0.8 * (_frac(i + 40, k) - 0.5) for i, n in enumerate(model.random_variables.epsilons.names)}
    data = {}
    names = list(model.datainfo.names)
    if data_row is not None:
        data = {c: float(v) for c, v in data_row.items()}
    elif model.dataset is not None and len(model.dataset) > 0:
        df = model.dataset
        row = df.iloc[(1 + 7 * k) % len(df)]
        for c in df.columns:
            try:
                data[c] = float(row[c])
            except (TypeError, ValueError):
                pass
    for i, c in enumerate(names):
        if c not in data or data[c] != data[c]:
            data[c] = 1.0 + 3.0 * _frac(i + 60, k)
    am = {}
    ode = model.statements.ode_system
    if ode is not None:
        for i, c in enumerate(ode.compartment_names):
            am[c] = 0.5 + 5.0 * _frac(i + 80, k)
    if amounts:
        am.update(amounts)
    return Point(params=params, etas=etas, eps=eps, data=data, amounts=am, t=data.get(_idv(model), 1.5))


def _idv(model):
    try:
        return model.datainfo.idv_column.name
    except Exception:
        return 'TIME'


def base_env(model, point: Point):
    env = {}
    env.update(point.data)
    env.update(point.params)
    env.update(point.etas)
    env.update(point.eps)
    env['t'] = point.t
    return env


def evaluate(model, point: Point) -> ModelValue:
    from pharmpy.model import Assignment, CompartmentalSystem, output

    mv = ModelValue()
    env = base_env(model, point)

    def clean():
        return {k: v for k, v in env.items() if v is not UNDEF}

    for s in model.statements:
        if isinstance(s, Assignment):
            name = str(s.symbol)
            try:
                env[name] = ev(s.expression, clean())
            except Undefined as u:
                env[name] = UNDEF
                mv.undefined[name] = str(u)
            mv.vars[name] = env[name]
        elif isinstance(s, CompartmentalSystem):
            for cname in s.compartment_names:
                comp = s.find_compartment(cname)
                key = str(comp.amount) + '(t)' if not str(comp.amount).endswith(')') else str(comp.amount)
                env[f'A_{cname}(t)'] = point.amounts[cname]
                env[key] = point.amounts[cname]
                # initial conditions A_x(0) appear after e.g. set_initial_condition
                env[f'A_{cname}(0)'] = 0.0
            for eq in s.eqs:
                lhs = eq.lhs._sympy_() if hasattr(eq.lhs, '_sympy_') else eq.lhs
                cname = str(lhs.args[0].func)[2:]
                try:
                    mv.rhs[cname] = ev(eq.rhs, clean())
                except Undefined as u:
                    mv.rhs[cname] = UNDEF
                    mv.undefined[f'd{cname}/dt'] = str(u)
            for cname in s.compartment_names:
                comp = s.find_compartment(cname)
                try:
                    mv.lag[cname] = ev(comp.lag_time, clean())
                    mv.bio[cname] = ev(comp.bioavailability, clean())
                except Undefined as u:
                    mv.undefined[f'lag/bio {cname}'] = str(u)
                ds = []
                for d in comp.doses:
                    kind = type(d).__name__
                    extra = None
                    try:
                        if kind == 'Infusion':
                            if d.rate is not None:
                                extra = ('rate', ev(d.rate, clean()))
                            else:
                                extra = ('duration', ev(d.duration, clean()))
                        amt = ev(d.amount, clean())
                    except Undefined as u:
                        mv.undefined[f'dose {cname}'] = str(u)
                        amt = UNDEF
                    ds.append((kind, amt, d.admid, extra))
                if ds:
                    mv.doses[cname] = ds
    for dv in model.dependent_variables:
        mv.y[str(dv)] = env.get(str(dv), UNDEF)
    return mv


def _same(a, b, rtol):
    if a is UNDEF or b is UNDEF:
        return a is b
    return close(a, b, rtol=rtol, atol=1e-12)


def compare(a: ModelValue, b: ModelValue, rtol=1e-9, names=None, check_ode=True, rename=None):
    """-> None if equivalent else (what, observed, expected). `names`: variable names that must agree
    (default: the dependent variables only). `rename`: compartment-name map a->b."""
    rename = rename or {}
    for k, v in a.y.items():
        if k not in b.y or not _same(v, b.y[k], rtol):
            return (f'y:{k}', b.y.get(k), v)
    for n in names or ():
        if n in a.vars:
            if n not in b.vars or not _same(a.vars[n], b.vars[n], rtol):
                return (f'var:{n}', b.vars.get(n), a.vars[n])
    if check_ode:
        ra = {rename.get(k, k): v for k, v in a.rhs.items()}
        if set(ra) != set(b.rhs):
            return ('ode:compartments', sorted(b.rhs), sorted(ra))
        for k, v in ra.items():
            if not _same(v, b.rhs[k], rtol):
                return (f'ode:rhs:{k}', b.rhs[k], v)
        dosed = {rename.get(k, k) for k in a.doses}
        for attr in ('lag', 'bio'):
            da = {rename.get(k, k): v for k, v in getattr(a, attr).items()}
            db = getattr(b, attr)
            for k, v in da.items():
                if k not in dosed:
                    continue  # lag time / bioavailability only act on doses entering the compartment
                if k in db and not _same(v, db[k], rtol):
                    return (f'ode:{attr}:{k}', db[k], v)
        da = {rename.get(k, k): v for k, v in a.doses.items()}
        if set(da) != set(b.doses):
            return ('ode:dose-compartments', sorted(b.doses), sorted(da))
        for k, ds in da.items():
            if len(ds) != len(b.doses[k]):
                return (f'ode:doses:{k}', repr(b.doses[k]), repr(ds))
            for x, y in zip(ds, b.doses[k]):
                if x[0] != y[0] or x[2] != y[2] or not _same(x[1], y[1], rtol) or (x[3] is None) != (y[3] is None) or (x[3] and (x[3][0] != y[3][0] or not _same(x[3][1], y[3][1], rtol))):
                    return (f'ode:dose:{k}', repr(y), repr(x))
    return None
