"""Reference workflow builder / evaluator for C17.  Pure Python; MUST NOT import pharmpy.

A reference workflow is an ordered list of task labels (the order in which the tasks entered
the workflow) and a set of edges.  Per the property text, a task receives

    static inputs, then the results of its predecessors in the order in which those
    predecessor tasks entered the workflow

so the predecessor order is derived from the node order (`order='entry'`).  The order in
which the edges were declared (`predecessors=[...]` lists) is kept as well (`order='declared'`)
only to label cases where both orders differ.

`replace` substitutes a task IN PLACE (position in the node order kept): replacing a task or
prepending the context argument to a task does not make the other tasks of the workflow
receive their arguments in another order.

`inplace=False` gives a *defect model* (replaced task re-enters last) that is used only to
give a precise clause name to one known deviation and for the known-finding predicate; it
is never used as the oracle.

The module also owns the total interpretation of a JSON spec (`plan`) so that check and
predicate interpret specs identically.
"""

from __future__ import annotations

MAX_TASKS = 12
CTX = '<CTX>'  # marker standing for the context object in static inputs


class RefError(Exception):
    pass


class RefWF:
    def __init__(self, inplace=True):
        self.nodes = []  # labels in entry order
        self.edges = set()  # (pred, succ)
        self.decl = {}  # label -> predecessors in declaration order
        self.inplace = inplace

    def copy(self):
        c = RefWF(self.inplace)
        c.nodes = list(self.nodes)
        c.edges = set(self.edges)
        c.decl = {k: list(v) for k, v in self.decl.items()}
        return c

    # ---- queries ----------------------------------------------------------------------
    def inputs(self):
        has_pred = {t for _, t in self.edges}
        return [n for n in self.nodes if n not in has_pred]

    def outputs(self):
        has_succ = {p for p, _ in self.edges}
        return [n for n in self.nodes if n not in has_succ]

    def preds(self, t, order='entry'):
        if order == 'declared':
            return list(self.decl.get(t, []))
        return [n for n in self.nodes if (n, t) in self.edges]

    def succs(self, t):
        return [n for n in self.nodes if (t, n) in self.edges]

    def descendants(self, t):
        out = set()
        todo = [t]
        while todo:
            x = todo.pop()
            for s2 in self.succs(x):
                if s2 not in out:
                    out.add(s2)
                    todo.append(s2)
        return out

    # ---- builder operations -------------------------------------------------------------
    def _add_node(self, t):
        if t not in self.nodes:
            self.nodes.append(t)
            self.decl.setdefault(t, [])

    def _add_edge(self, p, t):
        self._add_node(p)
        self._add_node(t)
        if (p, t) not in self.edges:
            self.edges.add((p, t))
            self.decl[t].append(p)

    def add_task(self, t, preds=()):
        self._add_node(t)
        for p in preds:
            self._add_edge(p, t)

    def compose(self, other):
        for n in other.nodes:
            self._add_node(n)
        for t in other.nodes:
            for p in other.decl.get(t, []):
                self._add_edge(p, t)

    def insert(self, other, preds=None):
        """insert_workflow: returns arity label; raises RefError for N:M"""
        outs = self.outputs() if preds is None else list(preds)
        ins = other.inputs()
        self.compose(other)
        if len(ins) == len(outs):
            for i, o in zip(ins, outs):
                self._add_edge(o, i)
            return 'NN' if len(ins) > 1 else ('11' if len(ins) == 1 else '00')
        if len(ins) == 1:
            for o in outs:
                self._add_edge(o, ins[0])
            return 'N1' if outs else '01'
        if len(outs) == 1:
            for i in ins:
                self._add_edge(outs[0], i)
            return '1N'
        raise RefError('N:M')

    def replace(self, old, new):
        if old not in self.nodes:
            raise RefError(f'{old} not in workflow')
        if old == new:
            return
        if new in self.nodes:
            raise RefError(f'{new} already in workflow')
        succs = self.succs(old)
        self.edges = {(new if p == old else p, new if t == old else t) for p, t in self.edges}
        self.decl[new] = self.decl.pop(old)
        if self.inplace:
            self.nodes[self.nodes.index(old)] = new
            for s in succs:
                d = self.decl[s]
                d[d.index(old)] = new
        else:
            # defect model: the new task re-enters the workflow last
            self.nodes.remove(old)
            self.nodes.append(new)
            for s in succs:
                self.decl[s].remove(old)
                self.decl[s].append(new)

    def touch(self, t):
        """replace a task by an equivalent one carrying the same label (what insert_context /
        execute_workflow do): no-op in place; in the defect model the task re-enters last."""
        if self.inplace:
            return
        succs = self.succs(t)
        self.nodes.remove(t)
        self.nodes.append(t)
        for s in succs:
            self.decl[s].remove(t)
            self.decl[s].append(t)

    # ---- analysis -------------------------------------------------------------------------
    def topo(self):
        indeg = {n: 0 for n in self.nodes}
        for _, t in self.edges:
            indeg[t] += 1
        done = []
        ready = [n for n in self.nodes if indeg[n] == 0]
        while ready:
            n = ready.pop(0)
            done.append(n)
            for s in self.succs(n):
                indeg[s] -= 1
                if indeg[s] == 0:
                    ready.append(s)
        if len(done) != len(self.nodes):
            raise RefError('cycle')
        return done

    def ancestors(self):
        anc = {}
        for n in self.topo():
            a = set()
            for p in self.preds(n):
                a.add(p)
                a |= anc[p]
            anc[n] = a
        return anc

    def has_multi_pred(self):
        return any(len(self.preds(n)) >= 2 for n in self.nodes)

    def has_diamond(self):
        """two different paths between some pair of nodes"""
        anc = self.ancestors()
        for n in self.nodes:
            ps = self.preds(n)
            for i in range(len(ps)):
                for j in range(i + 1, len(ps)):
                    a, b = ps[i], ps[j]
                    if a in anc[b] or b in anc[a] or (anc[a] & anc[b]):
                        return True
        return False

    def evaluate(self, info, order='entry'):
        """sequential evaluation in topological order -> (value of the single sink, all values)

        info[label] = dict(ctx=bool, static=tuple).  A plain task returns (label, args); a task
        taking the context returns (label, 'CTX' | ('WRONG', first), remaining args)."""
        outs = self.outputs()
        if len(outs) != 1:
            raise RefError('not exactly one sink')
        val = {}
        for n in self.topo():
            args = tuple(info[n]['static']) + tuple(val[p] for p in self.preds(n, order))
            val[n] = task_value(n, info[n]['ctx'], args)
        return val[outs[0]], val


def task_value(label, takes_ctx, args):
    """value of a task of the pure test family called with positional args (context object
    represented by CTX)"""
    if takes_ctx:
        if not args:
            raise RefError('context task called without arguments')
        tok = 'CTX' if args[0] == CTX else ('WRONG', args[0])
        return (label, tok, tuple(args[1:]))
    return (label, tuple(args))


# -------------------------------------------------------------------------------------------
# spec interpretation (total)


def _task(tspec, counter, ctx_allowed):
    label = f't{counter}'
    takes_ctx = bool(ctx_allowed and int(tspec.get('c', 1)) % 4 == 0)
    static = tuple((f's{v % 6}' if v % 2 else v % 6) for v in [int(x) for x in tspec.get('s', [])][:2])
    return dict(
        label=label,
        ctx=takes_ctx,
        static=static,
        name=f'n{int(tspec.get("n", 0)) % 3}' if int(tspec.get('n', 0)) % 4 else 'results',
        delay=(0, 0, 0, 1, 2)[int(tspec.get('d', 0)) % 5],
    )


def _dedupe(xs):
    out = []
    for x in xs:
        if x not in out:
            out.append(x)
    return out


class Plan:
    """Resolved construction script.

    steps: list of dicts (op, ...labels...) ; tasks: label -> task dict;
    snaps: reference state after each step; final reference `ref`; `info` for evaluation.
    """

    def __init__(self):
        self.steps = []
        self.tasks = {}
        self.snaps = []
        self.ref = RefWF()
        self.ctx_inserted = False
        self.classes = set()
        self.replaced = set()  # labels of tasks that replaced another one explicitly
        self.multi_sink_before_final = False


def plan(spec) -> Plan:
    P = Plan()
    ref = P.ref
    counter = [0]

    def new_task(tspec):
        t = _task(tspec if isinstance(tspec, dict) else {}, counter[0], not P.ctx_inserted)
        counter[0] += 1
        P.tasks[t['label']] = t
        return t['label']

    def room():
        return MAX_TASKS - 1 - len(ref.nodes)  # keep one slot for the sink

    def pick(idxs, limit=4):
        if not ref.nodes:
            return []
        idxs = idxs if isinstance(idxs, list) else []
        return _dedupe([ref.nodes[int(i) % len(ref.nodes)] for i in idxs[:limit] if isinstance(i, int)])

    def build_sub(w, maxn):
        w = w if isinstance(w, dict) else {}
        tl = list(w.get('t', []))[: max(0, min(4, maxn))]
        pl = list(w.get('p', []))
        sub = RefWF()
        labels = []
        decl = []
        for i, ts in enumerate(tl):
            lab = new_task(ts)
            ps = []
            if 0 < i < len(pl) and isinstance(pl[i], list):
                ps = _dedupe([labels[int(k) % i] for k in pl[i][:2]])
            sub.add_task(lab, ps)
            labels.append(lab)
            decl.append(ps)
        return sub, labels, decl

    # optional: the builder is created as WorkflowBuilder(tasks=[...]) (absent key: empty builder)
    init = spec.get('init', []) if isinstance(spec, dict) else []
    init = init if isinstance(init, list) else []
    if init:
        labels = [new_task(ts) for ts in init[:3]]
        for lab in labels:
            ref.add_task(lab)
        P.steps.append(dict(op='init', labels=labels))
        P.snaps.append(ref.copy())
        P.classes.add('init_tasks')

    ops = spec.get('ops', []) if isinstance(spec, dict) else []
    for op in list(ops)[:10]:
        if not isinstance(op, dict):
            continue
        o = op.get('o')
        step = None
        if o == 'add':
            if room() < 1:
                continue
            preds = pick(op.get('p', []))
            fresh = op.get('fresh', 1)
            fresh = fresh if isinstance(fresh, int) else 1
            lab = new_task(op.get('t'))
            if fresh % 3 == 0 and room() >= 2:
                # a predecessor that is not yet in the builder: it enters through the edge
                # (after the added task) and can be given its own predecessors later
                q = new_task(op.get('ft'))
                preds = preds[: (fresh // 3) % (len(preds) + 1)] + [q] + preds[(fresh // 3) % (len(preds) + 1) :]
                P.classes.add('fresh_predecessor')
            ref.add_task(lab, preds)
            step = dict(op='add', task=lab, preds=preds, single=bool(op.get('single')) and len(preds) == 1)
        elif o == 'link':
            # add_task on a task that is ALREADY in the builder, declaring (more) predecessors
            if not ref.nodes:
                continue
            i = op.get('i', 0)
            lab = ref.nodes[(i if isinstance(i, int) else 0) % len(ref.nodes)]
            banned = ref.descendants(lab) | {lab}  # keeps the graph acyclic
            preds = [x for x in pick(op.get('p', [])) if x not in banned]
            if not any((x, lab) not in ref.edges for x in preds):
                extra = [n for n in ref.nodes if n not in banned and (n, lab) not in ref.edges]
                preds = preds + extra[:1]
            new_edges = [x for x in preds if (x, lab) not in ref.edges]
            ref.add_task(lab, preds)
            step = dict(op='add', task=lab, preds=preds, single=bool(op.get('single')) and len(preds) == 1, existing=True)
            P.classes.add('add_task_existing' if new_edges else 'add_task_existing_noop')
            if new_edges and len(ref.preds(lab)) > len(new_edges):
                P.classes.add('add_task_existing_second_call')
        elif o in ('ins', 'plus'):
            if room() < 1:
                continue
            sub, labels, decl = build_sub(op.get('w'), room())
            if not labels:
                continue
            if o == 'plus':
                ref.compose(sub)
                step = dict(op='plus', labels=labels, decl=decl, variant=int(op.get('v', 0)) % 2)
                P.classes.add('plus')
            else:
                p = op.get('p')
                nin = len(sub.inputs())
                if p is None:
                    preds = None
                    nout = len(ref.outputs())
                else:
                    preds = pick(p)
                    nout = len(preds)
                if not (nin == nout or nin == 1 or nout == 1):
                    # make the arity a documented one (N:N, N:1, 1:N)
                    if preds is None:
                        preds = ref.outputs()
                    if len(preds) > nin:
                        preds = preds[:nin]
                    elif preds:
                        preds = preds[:1]
                    else:
                        # empty workflow and several inputs: nothing to connect to
                        ref.compose(sub)
                        P.steps.append(dict(op='plus', labels=labels, decl=decl, variant=0))
                        P.snaps.append(ref.copy())
                        continue
                ar = ref.insert(sub, preds)
                single = bool(op.get('single')) and preds is not None and len(preds) == 1
                step = dict(op='ins', labels=labels, decl=decl, preds=preds, as_builder=bool(op.get('b')), single=single)
                P.classes.add('ins_' + ar)
                if preds is None:
                    P.classes.add('ins_default_preds')
        elif o == 'rep':
            if not ref.nodes:
                continue
            old = ref.nodes[int(op.get('i', 0)) % len(ref.nodes)]
            lab = new_task(op.get('t'))
            ref.replace(old, lab)
            P.replaced.add(lab)
            step = dict(op='rep', old=old, new=lab)
            P.classes.add('replace_task')
        elif o == 'ctx':
            if P.ctx_inserted or not ref.nodes:
                continue
            P.ctx_inserted = True
            touched = [n for n in ref.nodes if P.tasks[n]['ctx']]
            step = dict(op='ctx', touched=touched)
            P.classes.add('insert_context_mid_script')
        if step is not None:
            P.steps.append(step)
            P.snaps.append(ref.copy())

    # ---- final sink ------------------------------------------------------------------------
    sk = spec.get('sink', {}) if isinstance(spec, dict) else {}
    sk = sk if isinstance(sk, dict) else {}
    outs = ref.outputs()
    P.multi_sink_before_final = len(outs) != 1
    if len(outs) != 1 or bool(sk.get('force')):
        perm = [int(x) for x in list(sk.get('perm', []))[:12]]
        keyed = sorted(range(len(outs)), key=lambda i: ((perm[i] if i < len(perm) else 0), i))
        preds = [outs[i] for i in keyed]
        extra = [n for n in pick(sk.get('x', []), 2) if n not in preds]
        preds = preds + extra
        lab = new_task(sk.get('t'))
        ref.add_task(lab, preds)
        P.steps.append(dict(op='add', task=lab, preds=preds, single=False))
        P.snaps.append(ref.copy())
    return P


def info_of(P: Plan, with_context: bool):
    """evaluation info; with_context=True: every task taking a context has it prepended"""
    info = {}
    for lab, t in P.tasks.items():
        st = t['static']
        if t['ctx'] and with_context:
            st = (CTX,) + tuple(st)
        info[lab] = dict(ctx=t['ctx'], static=tuple(st))
    return info


def replay(P: Plan, inplace: bool, upto=None):
    """rebuild the reference from the resolved steps (used for the defect model)"""
    r = RefWF(inplace=inplace)
    steps = P.steps if upto is None else P.steps[:upto]
    for s in steps:
        if s['op'] == 'init':
            for lab in s['labels']:
                r.add_task(lab)
        elif s['op'] == 'add':
            r.add_task(s['task'], s['preds'])
        elif s['op'] in ('ins', 'plus'):
            sub = RefWF()
            for lab, ps in zip(s['labels'], s['decl']):
                sub.add_task(lab, ps)
            if s['op'] == 'plus':
                r.compose(sub)
            else:
                r.insert(sub, s['preds'])
        elif s['op'] == 'rep':
            r.replace(s['old'], s['new'])
        elif s['op'] == 'ctx':
            for t in [n for n in r.nodes if n in s['touched']]:
                r.touch(t)
    return r


def after_insert_context(P: Plan, r: RefWF):
    r = r.copy()
    for t in [n for n in r.nodes if P.tasks[n]['ctx']]:
        r.touch(t)
    return r


def after_execute_workflow(P: Plan, r: RefWF):
    """execute_workflow replaces every task (in node order) and then inserts the context"""
    r = r.copy()
    for t in list(r.nodes):
        r.touch(t)
    return after_insert_context(P, r)


def expectations(P: Plan, inplace: bool):
    """values expected on each execution path; None where the path is not executed.

    direct            -- the final workflow as built (only when no context is pending)
    insert_context    -- WorkflowBuilder(wf) + insert_context  (only when no 'ctx' step in the script)
    execute_workflow  -- execute_workflow(wf, ctx)              (only when no 'ctx' step in the script)
    edges             -- edge sets after every step
    """
    out = dict(direct=None, insert_context=None, execute_workflow=None, edges=[])
    try:
        for k in range(1, len(P.steps) + 1):
            out['edges'].append(frozenset(replay(P, inplace, k).edges))
        r = replay(P, inplace)
    except RefError:
        # the defect model can run into N:M arities the reference avoids
        out['edges'].append('diverged')
        return out
    pending = any(t['ctx'] for lab, t in P.tasks.items() if lab in r.nodes) and not P.ctx_inserted
    info = info_of(P, with_context=True)
    try:
        if not pending:
            out['direct'] = r.evaluate(info)[0]
        if not P.ctx_inserted:
            out['insert_context'] = after_insert_context(P, r).evaluate(info)[0]
            out['execute_workflow'] = after_execute_workflow(P, r).evaluate(info)[0]
    except RefError:
        pass
    return out


def replace_reorders(spec) -> bool:
    """Known-finding predicate: in this script a task is replaced (replace_task, insert_context
    or the replacements execute_workflow performs) and 'the replaced task re-enters the
    workflow last' changes an edge set or a result compared with replacement in place."""
    P = plan(spec)
    return expectations(P, True) != expectations(P, False)


def declared_differs(P: Plan) -> bool:
    r = P.ref
    return any(r.preds(n, 'entry') != r.preds(n, 'declared') for n in r.nodes)
