"""Meaning of a complete NM-TRAN control stream text under NM-TRAN/PREDPP rules (no pharmpy).

    tm = TextModel(text)
    tm.thetas / tm.omega_blocks / tm.sigma_blocks / tm.input / tm.advan / tm.trans / tm.comps
    val = tm.evaluate(theta, eta, eps, data, amounts)   # amounts: dict compartment number -> value

`evaluate` runs $PK (or $PRED), derives the ODE right-hand side per compartment number (PREDPP
library for ADVAN1-4,10-12; Kij/KiTj for ADVAN5/7; $DES for ADVAN6/8/9/13), computes the
scaled observation F = A(defobs)/S(defobs), then runs $ERROR.
"""

from __future__ import annotations

import re

from . import nmtran as R


class TextModel:
    def __init__(self, text: str):
        self.text = text
        self.records = R.split_records(text)
        self.thetas = []
        om, sg = [], []
        self.code = {}
        self.advan = None
        self.trans = 1
        self.comps = []  # [(name, opts)]
        self.input = []
        self.abbr = {}
        self.data_record = None
        for raw, name, content in self.records:
            if name == 'THETA':
                self.thetas += R.parse_theta_record(content)
            elif name == 'OMEGA':
                om.append(R.parse_omega_record(content))
            elif name == 'SIGMA':
                sg.append(R.parse_omega_record(content))
            elif name == 'SUBROUTINES':
                self.advan, self.trans = R.parse_subroutines(content)
            elif name == 'MODEL':
                self.comps += R.parse_model_record(content)
            elif name == 'INPUT':
                self.input += R.parse_input(content)
            elif name == 'DATA':
                self.data_record = content
            elif name == 'ABBREVIATED':
                for m in re.finditer(r'REPLACE\s+([A-Za-z_][A-Za-z0-9_()]*)\s*=\s*([A-Za-z]+\(\s*\d+\s*\))', R._record_text(content)):
                    self.abbr[m.group(1).upper()] = m.group(2).upper().replace(' ', '')
        for raw, name, content in self.records:
            if name in ('PRED', 'PK', 'ERROR', 'DES'):
                self.code[name] = R.parse_code(self._apply_abbr(content))
        self.omega_blocks = R.assemble_omegas(om)
        self.sigma_blocks = R.assemble_omegas(sg)
        self.neta = sum(b['size'] for b in self.omega_blocks)
        self.neps = sum(b['size'] for b in self.sigma_blocks)

    def _apply_abbr(self, content):
        if not self.abbr:
            return content
        out = []
        for line in content.split('\n'):
            i = line.find(';')
            code, cmt = (line, '') if i < 0 else (line[:i], line[i:])
            for k in sorted(self.abbr, key=len, reverse=True):
                code = re.sub(r'(?<![A-Za-z0-9_])' + re.escape(k) + r'(?![A-Za-z0-9_(])', self.abbr[k], code, flags=re.I)
            out.append(code + cmt)
        return '\n'.join(out)

    # ---- structure ---------------------------------------------------------------------
    @property
    def ncomp(self):
        if self.advan in R.ADVAN_NCOMP:
            return R.ADVAN_NCOMP[self.advan]
        return len(self.comps)

    @property
    def defdose(self):
        if self.advan in R.ADVAN_DEFDOSE:
            return R.ADVAN_DEFDOSE[self.advan]
        for i, (nm, o) in enumerate(self.comps, 1):
            if 'DEFDOSE' in o:
                return i
        for i, (nm, o) in enumerate(self.comps, 1):
            if nm == 'DEPOT' and 'NODOSE' not in o:
                return i
        for i, (nm, o) in enumerate(self.comps, 1):
            if 'NODOSE' not in o:
                return i
        return 1

    @property
    def defobs(self):
        if self.advan in R.ADVAN_DEFOBS:
            return R.ADVAN_DEFOBS[self.advan]
        for i, (nm, o) in enumerate(self.comps, 1):
            if 'DEFOBSERVATION' in o:
                return i
        for i, (nm, o) in enumerate(self.comps, 1):
            if nm == 'CENTRAL':
                return i
        return 1

    def matrices(self):
        def full(blocks):
            n = sum(b['size'] for b in blocks)
            M = [[0.0] * n for _ in range(n)]
            for b in blocks:
                s = b['start'] - 1
                for a in range(b['size']):
                    for c in range(b['size']):
                        M[s + a][s + c] = b['matrix'][a][c]
            return M

        return full(self.omega_blocks), full(self.sigma_blocks)

    # ---- evaluation ----------------------------------------------------------------------
    def evaluate(self, theta, eta, eps, data, amounts):
        """-> dict(pk=vars after $PK/$PRED, rhs={n: value}, F=..., err=vars after $ERROR, nonfinite=bool)"""
        R.NONFINITE[0] = 0
        env = R.Env(theta=theta, eta=eta, eps=eps, data=data, amounts=amounts)
        out = {}
        if 'PRED' in self.code:
            R.exec_code(self.code['PRED'], env)
            out['pk'] = dict(env.vars)
            out['err'] = dict(env.vars)
            out['rhs'] = {}
            out['nonfinite'] = bool(R.NONFINITE[0])
            return out
        R.exec_code(self.code.get('PK', []), env)
        pk = dict(env.vars)
        out['pk'] = pk
        n = self.ncomp
        if self.advan in R.ADVAN_NCOMP:
            rates = R.predpp_rates(self.advan, self.trans, pk)
            out['rhs'] = R.rhs_from_rates(rates, amounts, n)
        elif self.advan in (5, 7):
            rates = R.general_linear_rates(pk, n)
            out['rhs'] = R.rhs_from_rates(rates, amounts, n)
        elif 'DES' in self.code:
            denv = R.Env(theta=theta, eta=eta, eps=eps, data=dict(env.vars), amounts=amounts)
            denv.vars['T'] = data.get('TIME', 0.0)
            R.exec_code(self.code['DES'], denv)
            out['rhs'] = {i: denv.vars.get(f'DADT({i})', 0.0) for i in range(1, n + 1)}
            out['des'] = dict(denv.vars)
        else:
            raise R.Unsupported(f'ADVAN{self.advan} without $DES')
        obs = self.defobs
        s = pk.get(f'S{obs}')
        if s is None and self.advan in R.ADVAN_DEFOBS and 'SC' in pk:
            s = pk['SC']
        out['scale'] = 1.0 if s is None else s
        out['F'] = amounts[obs] / out['scale']
        env.vars['F'] = out['F']
        R.exec_code(self.code.get('ERROR', []), env)
        out['err'] = dict(env.vars)
        out['nonfinite'] = bool(R.NONFINITE[0])
        return out

    def branch_margin(self, theta, eta, eps, data, amounts):
        m = R.INF
        for nm in ('PRED', 'PK'):
            if nm in self.code:
                m = min(m, R.branch_margin(self.code[nm], R.Env(theta=theta, eta=eta, eps=eps, data=data, amounts=amounts)))
        return m
