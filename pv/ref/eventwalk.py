"""Reference event walker for C14 (E9).

Plain per-individual, chronological loops over a list of dict records.  No pandas, no
pharmpy.  A *table* is

    records : list of dicts (one per data record, in dataset order)
    meta    : dict with the roles of the columns
        columns      ordered list of all column names
        id, idv, dv  names of the id / time / dv columns
        dose         name of the AMT column (or None)
        mdv, event, ss, ii, addl, cmt, admid   names or None
        covariates   list of covariate column names
        model        dict(dosing=[dict(cmt=<1-based number>, admid=<int>), ...], central=<number>)

Every derivation returns plain lists.  Where the documented semantics do not determine a
value the walker returns ``None`` for that record ("unspecified": not compared) and a tag
describing the rule that produced the value otherwise (used to name oracle clauses).

Documented rules implemented here (pharmpy.modeling docstrings / code comments):

* observation record: MDV == 0 if an mdv column exists, else EVID == 0 if an event column
  exists, else AMT == 0 if a dose column exists, else every record;
* dose record: AMT != 0;
* MDV: the mdv column, else EVID != 0, else AMT != 0, else 0;
* EVID: the event column, else "created" (dose -> 1, observation -> 0; a non-dose record
  with MDV=1 is unspecified);
* DOSEID: number of dose records of the individual so far, starting from 1 at the first
  dose; "if a dose and observation exist at the same time point the observation will be
  counted towards the previous dose", except that nothing is moved for the first dose
  ("This is the first dose"), when the dose record comes after the observation ("Dose
  record is after the observation") and for a steady state dose ("No swap for SS dosing");
* additional doses: ADDL = n, II = tau on a dose record at time t stands for n more doses
  at t + k*tau, k = 1..n;
* TAD: time since the dose that starts the record's dose period, where additional doses
  count as doses; 0 on dose records; never negative;
* CMT / ADMID: see get_cmt / get_admid docstrings ("admids of events in between doses is
  set to the last used admid");
* baseline: the first record of the individual "even if that has a missing value"; a
  covariate is time varying when it takes more than one value within some individual
  (whether a missing value is a value is not documented: left open).
"""

from __future__ import annotations

from collections import Counter


def individuals(records, meta):
    """[(id, [row, ...]), ...] in order of first appearance; records of one individual must
    be contiguous (ValueError otherwise)."""
    idc = meta['id']
    out = []
    seen = set()
    cur = None
    for i, rec in enumerate(records):
        v = rec[idc]
        if cur is None or v != cur:
            if v in seen:
                raise ValueError('records of an individual are not contiguous')
            seen.add(v)
            out.append((v, []))
            cur = v
        out[-1][1].append(i)
    return out


def _val(rec, meta, role, default=0):
    c = meta.get(role)
    return rec[c] if c is not None else default


def is_dose(rec, meta):
    c = meta.get('dose')
    return c is not None and rec[c] != 0


def is_observation(rec, meta):
    if meta.get('mdv') is not None:
        return rec[meta['mdv']] == 0
    if meta.get('event') is not None:
        return rec[meta['event']] == 0
    if meta.get('dose') is not None:
        return rec[meta['dose']] == 0
    return True


def observation_rows(records, meta):
    return [i for i, r in enumerate(records) if is_observation(r, meta)]


def dose_rows(records, meta):
    return [i for i, r in enumerate(records) if is_dose(r, meta)]


def mdv(records, meta):
    out = []
    for r in records:
        if meta.get('mdv') is not None:
            out.append(0 if r[meta['mdv']] == 0 else 1)
        elif meta.get('event') is not None:
            out.append(0 if r[meta['event']] == 0 else 1)
        elif meta.get('dose') is not None:
            out.append(0 if r[meta['dose']] == 0 else 1)
        else:
            out.append(0)
    return out


def evid(records, meta):
    """event column verbatim; otherwise created: 1 on dose records, 0 on observation
    records, None (unspecified) on non-dose records flagged missing by an mdv column"""
    out = []
    for r in records:
        if meta.get('event') is not None:
            out.append(r[meta['event']])
        elif is_dose(r, meta):
            out.append(1)
        elif meta.get('mdv') is not None and r[meta['mdv']] != 0:
            out.append(None)
        else:
            out.append(0)
    return out


def reset_groups(records, meta, rows):
    """per row of one individual: number of reset events (EVID >= 3) up to and including it"""
    out = {}
    n = 0
    for i in rows:
        if meta.get('event') is not None and records[i][meta['event']] >= 3:
            n += 1
        out[i] = n
    return out


def segments(records, meta, rows):
    """per row of one individual: index of the clock segment (a new segment starts where
    TIME decreases, i.e. the clock was restarted at a reset event)"""
    out = {}
    n = 0
    prev = None
    for i in rows:
        t = records[i][meta['idv']]
        if prev is not None and t < prev:
            n += 1
        prev = t
        out[i] = n
    return out


def additional(rec, meta):
    """[(time), ...] of the additional doses a record stands for"""
    if not is_dose(rec, meta):
        return []
    if meta.get('addl') is None or meta.get('ii') is None:
        return []
    n = int(rec[meta['addl']])
    if n <= 0:
        return []
    tau = rec[meta['ii']]
    t = rec[meta['idv']]
    return [t + k * tau for k in range(1, n + 1)]


def doseid(records, meta):
    """-> (values, tags): values[i] is an int or None (unspecified)"""
    n = len(records)
    vals = [None] * n
    tags = [''] * n
    tcol = meta['idv']
    for _id, rows in individuals(records, meta):
        rg = reset_groups(records, meta, rows)
        seg = segments(records, meta, rows)
        # doses of the individual at the very same time (same clock): which one is "previous" is undocumented
        mult = Counter((seg[i], records[i][tcol]) for i in rows if is_dose(records[i], meta))
        count = 0
        last = None  # (time, rg, ss, is_reset_dose)
        for i in rows:
            rec = records[i]
            t = rec[tcol]
            ev = _val(rec, meta, 'event', None)
            if is_dose(rec, meta):
                count += 1
                vals[i] = count
                tags[i] = 'dose'
                last = (t, rg[i], _val(rec, meta, 'ss') > 0, ev is not None and ev >= 3)
                continue
            if count == 0:
                vals[i] = 0
                tags[i] = 'before-first-dose'
                continue
            if last[0] != t:
                # a dose later in the table at this very time does not matter: "Dose record is after the observation"
                if mult[(seg[i], t)] >= 2:
                    vals[i] = None
                    tags[i] = 'unspecified:several-doses-at-this-time'
                else:
                    vals[i] = count
                    tags[i] = 'plain'
                continue
            # tie with the latest dose record, which precedes this record
            if last[1] != rg[i] or last[3]:
                vals[i] = None
                tags[i] = 'unspecified:tie-across-reset'
            elif mult[(seg[i], t)] >= 2:
                vals[i] = None
                tags[i] = 'unspecified:several-doses-at-this-time'
            elif count == 1:
                vals[i] = 1
                tags[i] = 'tie-first-dose'
            elif last[2]:
                vals[i] = count
                tags[i] = 'tie-ss-dose'
            else:
                vals[i] = count - 1
                tags[i] = 'tie-previous-dose'
    return vals, tags


def expansion(records, meta):
    """-> dict(added=[dict(origin=row, time=t, k=k)], crossing={id,...}, total_amount=float)

    crossing: individuals in which an additional dose is still pending when a reset event
    arrives (NONMEM cancels it, the documentation of expand_additional_doses is silent)."""
    tcol = meta['idv']
    added = []
    crossing = set()
    total = 0.0
    for _id, rows in individuals(records, meta):
        pending = []
        rg = reset_groups(records, meta, rows)
        prev_rg = 0
        for i in rows:
            rec = records[i]
            t = rec[tcol]
            pending = [(pt, o) for (pt, o) in pending if pt > t]
            if rg[i] != prev_rg:
                # a reset event: anything still pending from the earlier records?
                if pending:
                    crossing.add(_id)
                pending = []
                prev_rg = rg[i]
            if is_dose(rec, meta):
                total += rec[meta['dose']]
                for k, at in enumerate(additional(rec, meta), start=1):
                    added.append(dict(origin=i, time=at, k=k))
                    pending.append((at, i))
                    total += rec[meta['dose']]
    return dict(added=added, crossing=crossing, total_amount=total)


def tad(records, meta):
    """-> (values, tags); values[i] float or None (unspecified; the sign is still constrained)"""
    n = len(records)
    vals = [None] * n
    tags = [''] * n
    tcol = meta['idv']
    for _id, rows in individuals(records, meta):
        rg = reset_groups(records, meta, rows)
        seg = segments(records, meta, rows)
        events = []
        for i in rows:
            if is_dose(records[i], meta):
                events.append((seg[i], records[i][tcol]))
                for at in additional(records[i], meta):
                    events.append((seg[i], at))
        mult = Counter(events)
        hist = []  # fired dose events: (time, rg, ss, expanded, reset_dose)
        pending = []  # (time, seq, rg, ss)
        seq = 0
        unspecified_rest = None
        after_reset = False
        prev_rg = 0
        for i in rows:
            rec = records[i]
            t = rec[tcol]
            ev = _val(rec, meta, 'event', None)
            due = sorted(p for p in pending if p[0] <= t)
            for p in due:
                hist.append((p[0], p[2], p[3], True, False))
            pending = [p for p in pending if p[0] > t]
            if rg[i] != prev_rg:
                prev_rg = rg[i]
                if pending:
                    unspecified_rest = 'unspecified:additional-dose-pending-at-reset'
                    pending = []
            if is_dose(rec, meta):
                vals[i] = 0.0
                tags[i] = 'dose'
                ss = _val(rec, meta, 'ss') > 0
                hist.append((t, rg[i], ss, False, ev is not None and ev >= 3))
                after_reset = False
                for at in additional(rec, meta):
                    seq += 1
                    pending.append((at, seq, rg[i], ss))
                continue
            if ev is not None and ev >= 3:
                after_reset = True
                tags[i] = 'unspecified:reset-record'
                continue
            if unspecified_rest:
                tags[i] = unspecified_rest
                continue
            if after_reset:
                tags[i] = 'unspecified:after-reset-before-dose'
                continue
            if not hist:
                tags[i] = 'unspecified:before-first-dose'
                continue
            if mult[(seg[i], t)] >= 2:
                tags[i] = 'unspecified:several-doses-at-this-time'
                continue
            last = hist[-1]
            if last[1] != rg[i]:
                tags[i] = 'unspecified:after-reset-before-dose'
                continue
            if last[0] < t:
                vals[i] = t - last[0]
                tags[i] = 'after-additional-dose' if last[3] else 'plain'
            elif last[0] == t:
                if last[4]:
                    tags[i] = 'unspecified:tie-across-reset'
                elif len(hist) == 1:
                    vals[i] = 0.0
                    tags[i] = 'tie-first-dose'
                elif last[2]:
                    if last[3]:
                        tags[i] = 'unspecified:tie-additional-ss-dose'
                    else:
                        vals[i] = 0.0
                        tags[i] = 'tie-ss-dose'
                else:
                    prev = hist[-2]
                    if prev[1] != rg[i] or prev[0] >= t:
                        tags[i] = 'unspecified:tie-across-reset'
                    else:
                        vals[i] = t - prev[0]
                        tags[i] = 'tie-additional-dose' if last[3] else 'tie-previous-dose'
            else:
                tags[i] = 'unspecified:dose-later-than-record'
    return vals, tags


def _dose_cmt(meta, admid_value):
    for d in meta['model']['dosing']:
        if d['admid'] == admid_value:
            return d['cmt']
    return None


def _cmt_admid(meta, cmt_value):
    for d in meta['model']['dosing']:
        if d['cmt'] == cmt_value:
            return d['admid']
    return None


def cmt(records, meta):
    """-> (values, tags).  values[i]: a number, a set of acceptable numbers, or None."""
    n = len(records)
    vals = [None] * n
    tags = [''] * n
    ev = evid(records, meta)
    central = meta['model']['central']
    for i, rec in enumerate(records):
        if meta.get('cmt') is not None:
            vals[i] = rec[meta['cmt']]
            tags[i] = 'column'
        elif meta.get('admid') is not None:
            if ev[i] is None:
                tags[i] = 'unspecified:evid'
            elif is_dose(rec, meta):
                vals[i] = _dose_cmt(meta, rec[meta['admid']])
                tags[i] = 'dose-from-admid' if vals[i] is not None else 'unspecified:unknown-admid'
            elif ev[i] == 0:
                vals[i] = central
                tags[i] = 'observation-from-admid'
            else:
                tags[i] = 'unspecified:other-event'
        else:
            if ev[i] is None:
                tags[i] = 'unspecified:evid'
            elif is_dose(rec, meta):
                vals[i] = meta['model']['dosing'][0]['cmt']
                tags[i] = 'dose'
            else:
                vals[i] = {0, central}
                tags[i] = 'non-dose'
    return vals, tags


def admid(records, meta):
    """-> (values, tags).  "admids of events in between doses is set to the last used admid" """
    n = len(records)
    vals = [None] * n
    tags = [''] * n
    ev = evid(records, meta)
    if meta.get('admid') is not None:
        return [r[meta['admid']] for r in records], ['column'] * n
    ambiguous = any(e is None for e in ev)
    for _id, rows in individuals(records, meta):
        current = None
        for i in rows:
            rec = records[i]
            if ambiguous:
                tags[i] = 'unspecified:evid'
                continue
            if is_dose(rec, meta):
                if meta.get('cmt') is not None:
                    a = _cmt_admid(meta, rec[meta['cmt']])
                else:
                    a = meta['model']['dosing'][0]['admid']
                if a is None:
                    tags[i] = 'unspecified:dose-into-non-dosing-compartment'
                    current = None
                else:
                    vals[i] = a
                    tags[i] = 'reset-dose' if (ev[i] is not None and ev[i] >= 3) else 'dose'
                    current = a
            elif current is None:
                tags[i] = 'unspecified:before-first-dose'
            else:
                vals[i] = current
                tags[i] = 'last-used'
    return vals, tags


def baselines(records, meta, columns=None):
    """[(id, {col: value}), ...] first record of each individual"""
    cols = columns if columns is not None else [c for c in meta['columns'] if c != meta['id']]
    return [(_id, {c: records[rows[0]][c] for c in cols}) for _id, rows in individuals(records, meta)]


def _missing(v):
    return isinstance(v, float) and v != v


def time_varying_covariates(records, meta):
    """-> (certain, open): names of covariates that take more than one (non-missing) value
    within some individual, and names for which this depends on whether a missing value
    (NaN) counts as a value of its own (one non-missing value plus missing values within an
    individual): the docstring of list_time_varying_covariates does not say."""
    certain = []
    undecided = []
    for c in meta.get('covariates', []):
        status = 0
        for _id, rows in individuals(records, meta):
            vals = [records[i][c] for i in rows]
            present = {v for v in vals if not _missing(v)}
            if len(present) > 1:
                status = 2
                break
            if len(present) == 1 and any(_missing(v) for v in vals):
                status = max(status, 1)
        if status == 2:
            certain.append(c)
        elif status == 1:
            undecided.append(c)
    return certain, undecided


def observation_counts(records, meta):
    """[(id, count), ...] in order of appearance (individuals without observation included with 0)"""
    return [(_id, sum(1 for i in rows if is_observation(records[i], meta))) for _id, rows in individuals(records, meta)]


def nontrivial_features(records, meta):
    """labels of the non-triviality rule: tie, addl, reset, two_routes (any individual)"""
    tcol = meta['idv']
    out = set()
    for _id, rows in individuals(records, meta):
        dose_times = {records[i][tcol] for i in rows if is_dose(records[i], meta)}
        if any((not is_dose(records[i], meta)) and records[i][tcol] in dose_times for i in rows):
            out.add('tie')
        if any(additional(records[i], meta) for i in rows):
            out.add('addl')
        if meta.get('event') is not None and any(records[i][meta['event']] >= 3 for i in rows):
            out.add('reset')
        routes = set()
        for i in rows:
            if is_dose(records[i], meta):
                if meta.get('admid') is not None:
                    routes.add(('a', records[i][meta['admid']]))
                elif meta.get('cmt') is not None:
                    routes.add(('c', records[i][meta['cmt']]))
        if len(routes) >= 2:
            out.add('two_routes')
    return out
