"""Reference implementations for C19 (numpy / scipy only -- must not import pharmpy).

Every formula is quoted from the pharmpy docstring / docs page it was taken from.
Inputs are plain Python / numpy data extracted by the check module.
"""

from __future__ import annotations

import math

import numpy as np
from scipy.stats import chi2

# =========================================================================================
# 1. information criteria
#
# A model is described by `facts`:
#   params : list of dict(name, fix, init, lower, upper, kind in {'theta','omega','sigma'},
#                         iiv (bool: omega of an eta on the IIV level),
#                         with_eta (bool: theta that enters an individual parameter which
#                                   carries a (non-degenerate) random effect))
#   n_ind, n_obs : number of individuals / observation records in the dataset


def n_estimated(facts) -> int:
    """'n_estimated_parameters': the parameters that are not fixed."""
    return sum(1 for p in facts['params'] if not p['fix'])


def n_iiv_omegas(facts) -> int:
    """'n_estimated_iiv_omega_parameters': non-fixed parameters of the distributions of the
    IIV level etas (variances and covariances)."""
    return sum(1 for p in facts['params'] if not p['fix'] and p['kind'] == 'omega' and p['iiv'])


def n_random_fixed(facts):
    """Counts for the 'mixed' BIC.  calculate_bic only names them `n_random_parameters` and
    `n_fixed_parameters`; the split used here is the one of the mixed-effects BIC (Delattre,
    Lavielle, Poursat 2014) that the docstring example reproduces (pheno: 5 random, 1 fixed):
      random = estimated omegas + estimated thetas of individual parameters that have a
               random effect (an eta whose variance is not fixed to zero);
      fixed  = all other estimated parameters (thetas without random effect, sigmas).
    Only used on models where every estimated parameter falls in exactly one class."""
    r = f = 0
    for p in facts['params']:
        if p['fix']:
            continue
        if p['kind'] == 'omega' or (p['kind'] == 'theta' and p['with_eta']):
            r += 1
        else:
            f += 1
    return r, f


def ambiguous_thetas(facts):
    """estimated thetas that reach an eta only through another individual parameter (derived
    rate constants such as K12 = Q/V): random under the broad, fixed under the narrow reading"""
    return [p['name'] for p in facts['params']
            if not p['fix'] and p['kind'] == 'theta' and p['with_eta'] and not p.get('with_eta_direct', p['with_eta']) and not p.get('dead')]


def bic_mixed_admissible(ll: float, facts):
    """All values the mixed BIC may take when the classification of some thetas is open:
    every estimated parameter is counted exactly once, as random OR fixed (never both, never
    neither); only a parameter that no longer influences the model (dead) may also be left out."""
    amb = set(ambiguous_thetas(facts))
    r0 = f0 = d = 0
    for p in facts['params']:
        if p['fix']:
            continue
        if p.get('dead'):
            d += 1
        elif p['name'] in amb:
            continue
        elif p['kind'] == 'omega' or (p['kind'] == 'theta' and p['with_eta']):
            r0 += 1
        else:
            f0 += 1
    a = len(amb)
    ln, lo = math.log(facts['n_ind']), math.log(facts['n_obs'])
    out = set()
    for i in range(a + 1):
        for k in range(d + 1):
            for m in range(d + 1 - k):
                out.add(ll + (r0 + i + k) * ln + (f0 + (a - i) + m) * lo)
    return sorted(out)


def aic(ll: float, facts) -> float:
    # calculate_aic docstring:  "AIC = -2LL + 2*n_estimated_parameters"
    return ll + 2 * n_estimated(facts)


def bic(ll: float, facts, type: str = 'mixed') -> float:
    # calculate_bic docstring:
    #   mixed (default)  BIC = -2LL + n_random_parameters * log(n_individuals) +
    #                          n_fixed_parameters * log(n_observations)
    #   fixed            BIC = -2LL + n_estimated_parameters * log(n_observations)
    #   random           BIC = -2LL + n_estimated_parameters * log(n_individuals)
    #   iiv              BIC = -2LL + n_estimated_iiv_omega_parameters * log(n_individuals)
    n_ind, n_obs = facts['n_ind'], facts['n_obs']
    if type == 'fixed':
        return ll + n_estimated(facts) * math.log(n_obs)
    if type == 'random':
        return ll + n_estimated(facts) * math.log(n_ind)
    if type == 'iiv':
        return ll + n_iiv_omegas(facts) * math.log(n_ind)
    if type == 'mixed':
        r, f = n_random_fixed(facts)
        return ll + r * math.log(n_ind) + f * math.log(n_obs)
    raise ValueError(type)


# -----------------------------------------------------------------------------------------
# likelihood ratio test (property text: "likelihood-ratio cut-offs and p-values from the
# chi-square distribution with the difference in parameter count")


def lrt_cutoff(df: int, alpha: float) -> float:
    """Critical dOFV (= parent_ofv - child_ofv) the child has to reach.
    df = #parameters(child) - #parameters(parent).
      df > 0 (child extended): the upper alpha quantile of chi2(df);
      df < 0 (child reduced):  the OFV may rise by at most the upper alpha quantile of
                               chi2(-df), i.e. dOFV >= -quantile;
      df == 0: 0."""
    if df == 0:
        return 0.0
    if df > 0:
        return float(chi2.isf(alpha, df))
    return -float(chi2.isf(alpha, -df))


def lrt_p_value(dofv: float, df: int) -> float:
    """P(chi2(df) >= dofv) for an extended model with df > 0 more parameters."""
    return float(chi2.sf(dofv, df))


def lrt_test(parent_ofv: float, child_ofv: float, df: int, alpha: float) -> bool:
    dofv = parent_ofv - child_ofv
    if dofv != dofv:
        return False
    return dofv >= lrt_cutoff(df, alpha)


# =========================================================================================
# 2. strictness expressions (docs/strictness.rst)
#
# AST:  ['flag', name] | ['cmp', metric, op, number] | ['and', a, b] | ['or', a, b] | ['not', a]
#
# `sfacts` (plain data of one ModelfitResults + parameter classification):
#   ofv, minimization_successful, termination_cause, sigdigs, cond (float or None),
#   rse: dict name->float or None, grad: dict name->float or None,
#   est: dict name->float, kinds: dict name->'theta'|'omega'|'sigma',
#   bounds: dict name->(lower, upper)

FLAGS = (
    'minimization_successful',
    'rounding_errors',
    'maxevals_exceeded',
    'final_zero_gradient',
    'final_zero_gradient_theta',
    'final_zero_gradient_omega',
    'final_zero_gradient_sigma',
    'estimate_near_boundary',
    'estimate_near_boundary_theta',
    'estimate_near_boundary_omega',
    'estimate_near_boundary_sigma',
)
METRICS = ('sigdigs', 'condition_number', 'rse', 'rse_theta', 'rse_omega', 'rse_sigma')
OPS = ('<', '<=', '==', '>', '>=', '!=')


class NeedsData(Exception):
    """The expression needs a quantity the results do not have (documented ValueError for
    rse / condition_number; undocumented for the others)."""

    def __init__(self, what):
        super().__init__(what)
        self.what = what


class EmptySubset(Exception):
    """A per-type criterion on a model without parameters of that type: not specified."""


def _cmp(x: float, op: str, n: float) -> bool:
    if op == '<':
        return x < n
    if op == '<=':
        return x <= n
    if op == '==':
        return x == n
    if op == '>':
        return x > n
    if op == '>=':
        return x >= n
    if op == '!=':
        return x != n
    raise ValueError(op)


def round_sig(x: float, n: int) -> float:
    """x rounded to n significant digits (decimal), via decimal formatting."""
    if x == 0:
        return 0.0
    return float(f'{x:.{n - 1}e}')


def near_bound(value: float, lower: float, upper: float) -> bool:
    # strictness.rst: "True if at least one parameter estimate is near its boundary (maximum
    # distance to 0 = 0.001, maximum distance to non-zero bound = 2 significant digits"
    def near(x, target):
        if target == 0:
            return abs(x) < 0.001
        return round_sig(x, 2) == round_sig(target, 2)

    return (lower > -math.inf and near(value, lower)) or (upper < math.inf and near(value, upper))


def _subset(sfacts, d, suffix):
    if suffix is None:
        return list(d.keys())
    return [k for k in d.keys() if sfacts['kinds'][k] == suffix]


def eval_flag(name: str, sfacts) -> bool:
    if name == 'minimization_successful':
        # "True if minimization was successful"
        return bool(sfacts['minimization_successful'])
    if name == 'rounding_errors':
        # "True if minimization terminated due rounding errors"
        return sfacts['termination_cause'] == 'rounding_errors'
    if name == 'maxevals_exceeded':
        # "True if minimization terminated due maximum evaluations exceeded."
        return sfacts['termination_cause'] == 'maxevals_exceeded'
    if name.startswith('final_zero_gradient'):
        # "True if at least one [theta|omega|sigma] parameter has a final zero gradient or if
        # final gradient is nan"
        suffix = name[len('final_zero_gradient_'):] or None
        if sfacts['grad'] is None:
            if suffix is None:
                # no gradient table: what the results' warning list recorded at parse time
                return bool(sfacts.get('warn_fzg'))
            raise NeedsData('gradients')
        keys = _subset(sfacts, sfacts['grad'], suffix)
        if suffix is not None and not keys:
            raise EmptySubset(name)
        return any(sfacts['grad'][k] == 0 or sfacts['grad'][k] != sfacts['grad'][k] for k in keys)
    if name.startswith('estimate_near_boundary'):
        suffix = name[len('estimate_near_boundary_'):] or None
        keys = _subset(sfacts, sfacts['est'], suffix)
        if suffix is not None and not keys:
            raise EmptySubset(name)
        return any(near_bound(sfacts['est'][k], *sfacts['bounds'][k]) for k in keys)
    raise ValueError(name)


def eval_cmp(metric: str, op: str, n: float, sfacts) -> bool:
    if metric == 'sigdigs':
        # "Number of significant digits"
        return _cmp(sfacts['sigdigs'], op, n)
    if metric == 'condition_number':
        # "Condition number of the covariance matrix"
        if sfacts['cond'] is None:
            raise NeedsData('condition_number')
        return _cmp(sfacts['cond'], op, n)
    # "Relative standard errors of the [theta|omega|sigma] parameters." ; example in the docs:
    # "rse < 0.4 ... all parameters must have an RSE smaller than 0.4"
    if sfacts['rse'] is None:
        raise NeedsData(metric)
    suffix = metric[len('rse_'):] or None
    keys = _subset(sfacts, sfacts['rse'], suffix)
    if suffix is not None and not keys:
        raise EmptySubset(metric)
    return all(_cmp(sfacts['rse'][k], op, n) for k in keys)


def needed(ast, out=None):
    """all atoms of the expression (an atom that cannot be evaluated makes the whole
    expression un-evaluable, independent of short-circuiting)"""
    if out is None:
        out = []
    if ast[0] in ('flag', 'cmp'):
        out.append(ast)
    else:
        for a in ast[1:]:
            needed(a, out)
    return out


def eval_strictness(ast, sfacts) -> bool:
    """Truth value of the expression; NaN objective value -> not fulfilled (a run without an
    objective value has failed); empty expression (ast None) -> fulfilled."""
    if sfacts['ofv'] != sfacts['ofv']:
        return False
    if ast is None:
        return True
    for a in needed(ast):  # raise NeedsData / EmptySubset eagerly
        _eval(a, sfacts)
    return _eval(ast, sfacts)


def _eval(ast, sfacts) -> bool:
    k = ast[0]
    if k == 'flag':
        return eval_flag(ast[1], sfacts)
    if k == 'cmp':
        return eval_cmp(ast[1], ast[2], ast[3], sfacts)
    if k == 'and':
        return _eval(ast[1], sfacts) and _eval(ast[2], sfacts)
    if k == 'or':
        return _eval(ast[1], sfacts) or _eval(ast[2], sfacts)
    if k == 'not':
        return not _eval(ast[1], sfacts)
    raise ValueError(k)


def cond_number(mat) -> float:
    """2-norm condition number = largest / smallest singular value"""
    s = np.linalg.svd(np.asarray(mat, dtype=float), compute_uv=False)
    return float(s.max() / s.min())


# =========================================================================================
# 3. ranking
#
# entries: list (base first) of dict(name, strict (bool), value (criterion + penalty, float),
#                                     ofv, df_parent (int), parent (index))


def rank_reference(entries, rank_type, cutoff, alpha_of):
    """-> dict name -> True (must be ranked) / False (must not be ranked) / None (not
    specified by the documentation), and the reference delta per name.

    * a model failing the strictness expression is never ranked;
    * the base model is ranked when it passes strictness;
    * rank_type ofv/aic/bic with a cutoff: docs (modelsearch.rst, iivsearch.rst,
      iovsearch.rst: "not rank candidates with dOFV < cutoff", "exclude models that are below
      cutoff"): ranked iff delta = value(base) - value(cand) >= cutoff.  When the base model
      itself fails strictness there is no reference value: not specified;
    * rank_type lrt: ranked iff the LRT against its parent passes with the p-value `cutoff`
      (alpha_of(df) resolves None / pairs).  When the parent failed strictness: not specified.
    """
    base = entries[0]
    out = {}
    delta = {}
    for i, e in enumerate(entries):
        if not e['strict']:
            out[e['name']] = False
            continue
        delta[e['name']] = base['value'] - e['value'] if base['strict'] else math.nan
        if i == 0:
            out[e['name']] = True
        elif rank_type == 'lrt':
            par = entries[e['parent']]
            if not par['strict']:
                out[e['name']] = None
            else:
                out[e['name']] = lrt_test(par['ofv'], e['ofv'], e['df_parent'], alpha_of(e['df_parent']))
        elif cutoff is None:
            out[e['name']] = True
        elif not base['strict']:
            out[e['name']] = None
        else:
            out[e['name']] = (base['value'] - e['value']) >= cutoff
    return out, delta


# =========================================================================================
# 4. statistics


def mean(x):
    x = np.asarray(x, dtype=float)
    return float(x.sum() / len(x))


def median(x):
    s = sorted(float(v) for v in x)
    n = len(s)
    return s[n // 2] if n % 2 else 0.5 * (s[n // 2 - 1] + s[n // 2])


def var1(x):
    """sample variance, ddof = 1"""
    x = np.asarray(x, dtype=float)
    m = x.sum() / len(x)
    return float(((x - m) ** 2).sum() / (len(x) - 1))


def std1(x):
    return math.sqrt(var1(x))


def cov1(X):
    """sample covariance matrix (ddof = 1) of the columns of X"""
    X = np.asarray(X, dtype=float)
    d = X - X.sum(axis=0) / X.shape[0]
    return d.T @ d / (X.shape[0] - 1)


def percentile(x, p):
    # bootstrap.rst: "All percentiles are calculated using linear interpolation if it falls
    # between two data points. If the two data points are x0 and x1 the percentile would be
    # x0 + (x1 - x0) f".  Position convention: h = (n - 1) p on the sorted sample (the min is the
    # 0th and the max the 100th percentile, as the table's `min` .. `max` columns imply).
    s = sorted(float(v) for v in x)
    n = len(s)
    h = (n - 1) * p
    lo = int(math.floor(h))
    hi = min(lo + 1, n - 1)
    return s[lo] + (s[hi] - s[lo]) * (h - lo)


DIST_COLUMNS = (
    ('min', 0.0),
    ('0.05%', 0.0005),
    ('0.5%', 0.005),
    ('2.5%', 0.025),
    ('5%', 0.05),
    ('median', 0.5),
    ('95%', 0.95),
    ('97.5%', 0.975),
    ('99.5%', 0.995),
    ('99.95%', 0.9995),
    ('max', 1.0),
)


def bootstrap_parameter_statistics(estimates, original):
    """bootstrap.rst:  mean   'Mean over all bootstrap runs'
                       median 'Median over all bootstrap runs'
                       bias   'Difference between the mean and the value in the original model'
                       stderr 'Standard deviation over all bootstrap runs'  (sample sd, ddof=1)
                       RSE    'Standard error divided by the mean'"""
    X = np.asarray(estimates, dtype=float)
    out = []
    for j in range(X.shape[1]):
        col = X[:, j]
        m = mean(col)
        sd = std1(col) if len(col) > 1 else math.nan
        out.append(
            dict(
                mean=m,
                median=median(col),
                bias=(m - original[j]) if original is not None else math.nan,
                stderr=sd,
                RSE=sd / m if m != 0 else math.nan,
            )
        )
    return out


def bootstrap_ofvs(boot_ofvs, original_ofv, base_iofv, included, dofv_ofvs):
    """bootstrap.rst 'OFV statistics':
    bootstrap_bootdata_ofv  'OFVs from the bootstrap runs'
    original_bootdata_ofv   'Sum of iOFVs from original modelfit of individuals included in each
                             bootstrap run'  (an individual drawn twice counts twice)
    bootstrap_origdata_ofv  'OFVs from all dofv runs'
    original_origdata_ofv   'OFV of original model'
    delta_bootdata          'Difference between original_bootdata_ofv and bootstrap_bootdata_ofv'
    delta_origdata          'Difference between bootstrap_origdata_ofv and the OFV of the
                             original model'"""
    rows = []
    for i, b in enumerate(boot_ofvs):
        ob = math.nan
        if base_iofv is not None and included:
            ob = float(sum(base_iofv[k] for k in included[i]))
        bo = math.nan
        if dofv_ofvs is not None and dofv_ofvs[i] is not None:
            bo = dofv_ofvs[i]
        oo = original_ofv if original_ofv is not None else math.nan
        rows.append(
            dict(
                bootstrap_bootdata_ofv=b,
                original_bootdata_ofv=ob,
                bootstrap_origdata_ofv=bo,
                original_origdata_ofv=oo,
                delta_bootdata=ob - b,
                delta_origdata=bo - oo,
            )
        )
    return rows


def cook_scores(base, estimates, cov):
    # cdd.rst:  sqrt( (P_i - P_orig)^T cov(P_orig)^-1 (P_i - P_orig) )
    C = np.asarray(cov, dtype=float)
    out = []
    for row in np.asarray(estimates, dtype=float):
        d = row - np.asarray(base, dtype=float)
        out.append(float(math.sqrt(d @ np.linalg.solve(C, d))))
    return out


def jackknife_cov(estimates):
    # cdd.rst:  cov_jk[j,k] = (N - 1)/N * sum_i (p_ij - pbar_j)(p_ik - pbar_k),
    #           pbar_j = 1/N sum_i p_ij
    X = np.asarray(estimates, dtype=float)
    N = X.shape[0]
    d = X - X.sum(axis=0) / N
    return (N - 1) / N * (d.T @ d)


def covariance_ratio(cov_i, cov_orig):
    # cdd.rst:  sqrt( det(cov(P_i)) / det(cov(P_orig)) )
    return math.sqrt(np.linalg.det(np.asarray(cov_i, dtype=float)) / np.linalg.det(np.asarray(cov_orig, dtype=float)))


def cdd_delta_ofv(ofv_all, iofv, skipped, ofv_k):
    # cdd.rst:  dOFV = OFV_all - iOFV_k - OFV_k   (k: the removed individual(s))
    return ofv_all - sum(iofv[s] for s in skipped) - ofv_k


def eta_shrinkage(etas, omegas, sd=False):
    """calculate_eta_shrinkage: 'Calculate eta shrinkage for each eta', variance scale by
    default, 'sd: Calculate shrinkage on the standard deviation scale':
         1 - var(eta_i) / omega_ii          resp.   1 - sd(eta_i) / sqrt(omega_ii)
    with the sample variance (ddof = 1) -- the convention that reproduces the numbers of the
    docstring example (checked in the self-check)."""
    X = np.asarray(etas, dtype=float)
    out = []
    for j in range(X.shape[1]):
        v = var1(X[:, j])
        out.append(1 - math.sqrt(v) / math.sqrt(omegas[j]) if sd else 1 - v / omegas[j])
    return out


def individual_shrinkage(covs, omegas):
    # calculate_individual_shrinkage docstring: "Definition: ieta_shr = (var(eta) / omega)"
    return [[float(np.asarray(c, dtype=float)[j, j]) / omegas[j] for j in range(len(omegas))] for c in covs]


def simeval_residual(orig, sampled):
    # simeval.rst:  res = (obs - mean(sim)) / sd(sim) ; "outlier if the corresponding residual
    # is 3 or higher"
    m = mean(sampled)
    sd = std1(sampled)
    return (orig - m) / sd


# ---- delta method: forward-mode automatic differentiation on a small expression AST ------
# AST: ['p', i] | ['c', x] | ['+',a,b] | ['*',a,b] | ['/',a,b] | ['exp',a] | ['log',a] | ['sqrt',a] | ['pow',a,n]


def ad_eval(ast, vals):
    """-> (value, gradient vector w.r.t. vals)"""
    n = len(vals)
    k = ast[0]
    if k == 'p':
        g = np.zeros(n)
        g[ast[1]] = 1.0
        return float(vals[ast[1]]), g
    if k == 'c':
        return float(ast[1]), np.zeros(n)
    if k in ('+', '*', '/'):
        a, ga = ad_eval(ast[1], vals)
        b, gb = ad_eval(ast[2], vals)
        if k == '+':
            return a + b, ga + gb
        if k == '*':
            return a * b, ga * b + gb * a
        return a / b, ga / b - a * gb / (b * b)
    a, ga = ad_eval(ast[1], vals)
    if k == 'exp':
        return math.exp(a), math.exp(a) * ga
    if k == 'log':
        return math.log(a), ga / a
    if k == 'sqrt':
        return math.sqrt(a), ga / (2 * math.sqrt(a))
    if k == 'pow':
        return a ** ast[2], ast[2] * a ** (ast[2] - 1) * ga
    raise ValueError(k)


def se_delta(ast, vals, cov):
    # se_delta_method docstring: "Use the delta method to estimate the standard error of a
    # function of parameters with covariance matrix available":  se = sqrt(g^T C g), g = grad f
    _, g = ad_eval(ast, vals)
    return float(math.sqrt(g @ np.asarray(cov, dtype=float) @ g))


def numeric_gradient(ast, vals, h=1e-6):
    g = np.zeros(len(vals))
    for i in range(len(vals)):
        up = list(vals)
        dn = list(vals)
        up[i] += h * max(1.0, abs(vals[i]))
        dn[i] -= h * max(1.0, abs(vals[i]))
        g[i] = (ad_eval(ast, up)[0] - ad_eval(ast, dn)[0]) / (up[i] - dn[i])
    return g
