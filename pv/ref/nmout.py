"""E8 -- reference writer (and a deliberately simple reader) for NONMEM output tables.

No pharmpy import.  Formats follow /repo/docs/NONMEM.rst ("phi files": one leading blank,
column names left justified in 13 character fields, the last name unpadded; integers
right justified in 13 characters, reals `1PE13.5` (two digit exponent), OBJ right justified
in 22 characters) and the checked-in NONMEM 7.4 outputs (tests/testdata/nonmem/pheno_real.*),
which `selfcheck()` of the C20 check regenerates byte for byte from their parsed numbers.

A *table* is a dict
    title   : full 'TABLE NO. ...' line (without newline)
    names   : column names
    rows    : list of rows; every row is a list of already formatted *fields* (strings of the
              exact width they occupy in the file).  float(field) is the value NONMEM printed.
Keeping the fields makes the expected value of every cell `float(field)` -- the printed
precision is the precision of the oracle.
"""

from __future__ import annotations

import math
import re

# special ITERATION codes of the ext file (NONMEM 7.4 guide, "$ESTIMATION ... raw output file")
IT_FINAL = -1000000000
IT_SE = -1000000001
IT_EIGEN = -1000000002
IT_COND = -1000000003
IT_SDCORR = -1000000004
IT_SE_SDCORR = -1000000005
IT_FIXED = -1000000006
IT_TERM = -1000000007
IT_PARTIAL = -1000000008
SPECIAL = (IT_FINAL, IT_SE, IT_EIGEN, IT_COND, IT_SDCORR, IT_SE_SDCORR, IT_FIXED, IT_TERM, IT_PARTIAL)

W = 13  # field width of the "additional output files" (FORMAT=S1PE12.5)
OBJW = 22


# ------------------------------------------------------------------------------------------
# field formatting


def fmt_e(x: float, width: int = W, prec: int = 5) -> str:
    """1PEw.d with a two digit exponent, right justified."""
    s = '%*.*E' % (width, prec, x)
    if len(s) != width:
        raise ValueError(f'value {x!r} does not fit E{width}.{prec} with a two digit exponent')
    return s


def fmt_i(n: int, width: int = W) -> str:
    s = '%*d' % (width, n)
    if len(s) != width:
        raise ValueError(f'integer {n} does not fit in {width} characters')
    return s


def obj_text(x: float) -> str:
    """The OBJ column: 17 significant digits in plain decimal notation ("regular decimal
    format", docs/NONMEM.rst); exact zero is printed with 16 decimals; magnitudes below 0.1
    or above 1e15 are printed in scientific notation with 17 digits and a three digit
    exponent (observed: -8.6311579442254982E-002)."""
    if x != x:
        return 'NaN'
    if x == 0:
        return '0.0000000000000000'
    a = abs(x)
    if 0.1 <= a < 1e15:
        k = 0 if a < 1 else int(math.floor(math.log10(a))) + 1
        s = '%.*f' % (17 - k, a)
        # rounding may have produced one more integer digit (9.99..9 -> 10.0..0): keep width
        ip = s.split('.')[0]
        kk = 0 if ip == '0' else len(ip)
        if kk != k:
            s = '%.*f' % (17 - kk, a)
        return ('-' if x < 0 else '') + s
    m, e = ('%.16E' % a).split('E')
    return ('-' if x < 0 else '') + m + 'E' + e[0] + '%03d' % int(e[1:])


def fmt_obj(x: float, width: int = OBJW) -> str:
    """22 characters; values printed in scientific notation get a 27 character field
    (observed in tests/testdata/nonmem/modelfit_results/saem/pheno_saem.phi), so the field
    never touches its left neighbour."""
    t = obj_text(x)
    if len(t) > width - 2:
        width = 27
    return '%*s' % (width, t)


def fmt_name(name: str, width: int = W) -> str:
    """row label of a cov/cor/coi file: blank + left justified name"""
    s = ' %-*s' % (width - 1, name)
    if len(s) != width:
        raise ValueError(name)
    return s


def header_line(names, width: int = W) -> str:
    return ' ' + ''.join('%-*s' % (width, n) for n in names[:-1]) + names[-1]


# ------------------------------------------------------------------------------------------
# titles


def title_line(number, method, goal=None, design=None, problem=1, subproblem=0, superproblem1=0, iteration1=0, superproblem2=0, iteration2=0):
    s = 'TABLE NO.%6d: %s: ' % (number, method)
    if design is not None:
        s += design + ': '
    if goal is not None:
        s += 'Goal Function=%s: ' % goal
    s += 'Problem=%d Subproblem=%d Superproblem1=%d Iteration1=%d Superproblem2=%d Iteration2=%d' % (
        problem, subproblem, superproblem1, iteration1, superproblem2, iteration2,
    )
    return s


# ------------------------------------------------------------------------------------------
# labels


def tri(n):
    """(i, j) of the lower triangle, row-wise, 1-based"""
    return [(i, j) for i in range(1, n + 1) for j in range(1, i + 1)]


def param_labels(ntheta, nomega, nsigma):
    """NONMEM's order for raw output: THETA, SIGMA, OMEGA (ORDER=TSOL)."""
    return (
        ['THETA%d' % (i + 1) for i in range(ntheta)]
        + ['SIGMA(%d,%d)' % ij for ij in tri(nsigma)]
        + ['OMEGA(%d,%d)' % ij for ij in tri(nomega)]
    )


def phi_names(neta, prefix='ETA', objname='OBJ'):
    c = 'ETC' if prefix == 'ETA' else 'PHC'
    return ['SUBJECT_NO', 'ID'] + ['%s(%d)' % (prefix, i + 1) for i in range(neta)] + ['%s(%d,%d)' % ((c,) + ij) for ij in tri(neta)] + [objname]


# ------------------------------------------------------------------------------------------
# building tables


def ext_table(title, labels, rows, objname='OBJ'):
    """rows: list of (iteration:int, values:list[float], obj:float)"""
    out = []
    for it, vals, obj in rows:
        if len(vals) != len(labels):
            raise ValueError('ext row length')
        out.append([fmt_i(it)] + [fmt_e(v) for v in vals] + [fmt_obj(obj)])
    return dict(title=title, names=['ITERATION'] + list(labels) + [objname], rows=out)


def phi_table(title, neta, rows, prefix='ETA', objname='OBJ'):
    """rows: list of (subject_no, id, etas, etcs(lower triangle row-wise), obj)"""
    out = []
    for sno, ident, etas, etcs, obj in rows:
        if len(etas) != neta or len(etcs) != neta * (neta + 1) // 2:
            raise ValueError('phi row length')
        out.append([fmt_i(sno), fmt_i(ident)] + [fmt_e(v) for v in etas] + [fmt_e(v) for v in etcs] + [fmt_obj(obj)])
    return dict(title=title, names=phi_names(neta, prefix, objname), rows=out)


def matrix_table(title, labels, matrix):
    out = []
    for lab, row in zip(labels, matrix):
        out.append([fmt_name(lab)] + [fmt_e(v) for v in row])
    return dict(title=title, names=['NAME'] + list(labels), rows=out)


def render(tables) -> str:
    """ext / phi / cov / cor / coi file"""
    lines = []
    for t in tables:
        lines.append(t['title'])
        lines.append(header_line(t['names']))
        for r in t['rows']:
            lines.append(''.join(r))
    return '\n'.join(lines) + '\n'


# --- $TABLE files (FORMAT=S1PE11.4) ---------------------------------------------------------

TW = 12
HEADER_EVERY = 900


def dt_field(x: float) -> str:
    s = ' %11.4E' % x
    if len(s) != TW:
        raise ValueError(f'value {x!r} does not fit S1PE11.4')
    return s


def dt_header(names) -> str:
    return ' ' + ''.join('%-*s' % (TW, n) for n in names[:-1]) + names[-1]


def dollar_table(number, names, rows):
    return dict(title='TABLE NO.%3d' % number, names=list(names), rows=[[dt_field(v) for v in r] for r in rows])


def render_dollar_tables(tables, title=True, label=True, oneheader=False) -> str:
    """Default: title and label lines are repeated every 900 records; ONEHEADER: once per
    table; NOTITLE / NOLABEL drop the respective line."""
    lines = []
    for t in tables:
        for k, r in enumerate(t['rows']):
            if k == 0 or (not oneheader and k % HEADER_EVERY == 0):
                if title:
                    lines.append(t['title'])
                if label:
                    lines.append(dt_header(t['names']))
            lines.append(''.join(r))
    return '\n'.join(lines) + '\n'


# ------------------------------------------------------------------------------------------
# a deliberately simple reader used by the self-check (whitespace tokens, known layout)

_num = re.compile(r'^[-+]?(\d+\.?\d*|\.\d+)([EeDd][-+]?\d+)?$')


def parse(text, dollar=False):
    """-> list of dict(title, names, rows=[tokens]) ; tokens are strings"""
    tables = []
    cur = None
    for line in text.split('\n'):
        if line.startswith('TABLE NO.'):
            cur = dict(title=line, names=None, rows=[])
            tables.append(cur)
            continue
        if not line.strip():
            continue
        if cur is None:
            cur = dict(title=None, names=None, rows=[])
            tables.append(cur)
        toks = line.split()
        if cur['names'] is None:
            cur['names'] = toks
            continue
        if dollar and toks == cur['names']:
            continue
        cur['rows'].append(toks)
    return tables


_title = re.compile(
    r'TABLE NO\.\s*(\d+): (.*?): (?:Goal Function=(.*?): )?Problem=(\d+) Subproblem=(\d+) Superproblem1=(\d+) '
    r'Iteration1=(\d+) Superproblem2=(\d+) Iteration2=(\d+)$'
)


def parse_title(line):
    m = _title.match(line)
    if not m:
        raise ValueError('title: ' + line)
    return dict(
        number=int(m.group(1)), method=m.group(2), goal=m.group(3), problem=int(m.group(4)), subproblem=int(m.group(5)),
        superproblem1=int(m.group(6)), iteration1=int(m.group(7)), superproblem2=int(m.group(8)), iteration2=int(m.group(9)),
    )


def regenerate(text, kind):
    """Parse a file with the simple reader, turn every token into a number and render it
    again with the writer.  kind: 'ext' | 'phi' | 'mat' | 'dollar'."""
    tabs = parse(text, dollar=(kind == 'dollar'))
    out = []
    for t in tabs:
        if kind == 'dollar':
            m = re.match(r'TABLE NO\.\s*(\d+)$', t['title'])
            out.append(dollar_table(int(m.group(1)), t['names'], [[float(x) for x in r] for r in t['rows']]))
            continue
        ti = parse_title(t['title'])
        title = title_line(
            ti['number'], ti['method'], goal=ti['goal'], problem=ti['problem'], subproblem=ti['subproblem'], superproblem1=ti['superproblem1'],
            iteration1=ti['iteration1'], superproblem2=ti['superproblem2'], iteration2=ti['iteration2'],
        )
        if kind == 'ext':
            rows = [(int(r[0]), [float(x) for x in r[1:-1]], float(r[-1])) for r in t['rows']]
            out.append(ext_table(title, t['names'][1:-1], rows, objname=t['names'][-1]))
        elif kind == 'phi':
            neta = sum(1 for n in t['names'] if re.match(r'(ETA|PHI)\(\d+\)$', n))
            prefix = 'PHI' if any(n.startswith('PHI') for n in t['names']) else 'ETA'
            rows = [
                (int(r[0]), int(r[1]), [float(x) for x in r[2 : 2 + neta]], [float(x) for x in r[2 + neta : -1]], float(r[-1]))
                for r in t['rows']
            ]
            tab = phi_table(title, neta, rows, prefix=prefix, objname=t['names'][-1])
            if tab['names'] != t['names']:
                raise ValueError('phi names')
            out.append(tab)
        elif kind == 'mat':
            labels = t['names'][1:]
            if [r[0] for r in t['rows']] != labels:
                raise ValueError('matrix labels')
            out.append(matrix_table(title, labels, [[float(x) for x in r[1:]] for r in t['rows']]))
        else:
            raise ValueError(kind)
    if kind == 'dollar':
        return render_dollar_tables(out, oneheader=True)
    return render(out)
