"""Reference model for C11 (random-effect algebra, PSD repair, cov/corr conversions).

Does NOT import the library under test.  Entries of the symbolic covariance table are
JSON-like tuples:  ('s', name) for a symbol, ('n', float) for a number, ('x', text) for any
other expression (only produced when reading back from the library).
"""

from __future__ import annotations

import numpy as np

ZERO = ('n', 0.0)


def is_zero(e):
    return e[0] == 'n' and e[1] == 0.0


class Block:
    __slots__ = ('names', 'level')

    def __init__(self, names, level):
        self.names = list(names)
        self.level = level

    def copy(self):
        return Block(self.names, self.level)


class RefRVs:
    """dict name -> (level, block) + dense table of variances, within-block covariances, means."""

    def __init__(self):
        self.blocks = []  # ordered list of Block
        self.var = {}  # name -> entry
        self.mean = {}  # name -> entry
        self.cov = {}  # frozenset({a, b}) -> entry, only for pairs inside one block

    # ----------------------------------------------------------------------------- basic queries
    def copy(self):
        new = RefRVs()
        new.blocks = [b.copy() for b in self.blocks]
        new.var = dict(self.var)
        new.mean = dict(self.mean)
        new.cov = dict(self.cov)
        return new

    def names(self):
        return [n for b in self.blocks for n in b.names]

    def block_of(self, name):
        for i, b in enumerate(self.blocks):
            if name in b.names:
                return i
        raise KeyError(name)

    def level_of(self, name):
        return self.blocks[self.block_of(name)].level

    def get_cov(self, a, b):
        if a == b:
            return self.var[a]
        if self.block_of(a) != self.block_of(b):
            return ZERO
        return self.cov[frozenset((a, b))]

    def block_tuples(self):
        return [tuple(b.names) for b in self.blocks]

    def symbols(self):
        out = set()
        for e in list(self.var.values()) + list(self.mean.values()) + list(self.cov.values()):
            if e[0] == 's':
                out.add(e[1])
        return out

    def variance_symbols_in_order(self):
        """Unique names of the diagonal entries in order; None when a diagonal entry is not a symbol."""
        out = []
        for n in self.names():
            e = self.var[n]
            if e[0] != 's':
                return None
            if e[1] not in out:
                out.append(e[1])
        return out

    def add_block(self, names, level, var, mean, cov, front=False):
        b = Block(names, level)
        if front:
            self.blocks.insert(0, b)
        else:
            self.blocks.append(b)
        for n in names:
            self.var[n] = var[n]
            self.mean[n] = mean[n]
        for i, a in enumerate(names):
            for c in names[:i]:
                self.cov[frozenset((a, c))] = cov[frozenset((a, c))]

    def _prune(self):
        """Drop table entries of names that left and of pairs that are no longer in one block."""
        names = set(self.names())
        self.var = {k: v for k, v in self.var.items() if k in names}
        self.mean = {k: v for k, v in self.mean.items() if k in names}
        where = {n: i for i, b in enumerate(self.blocks) for n in b.names}
        keep = {}
        for k, v in self.cov.items():
            a, b = tuple(k)
            if a in where and b in where and where[a] == where[b]:
                keep[k] = v
        self.cov = keep

    # ----------------------------------------------------------------------------- operations
    # Every operation mutates self to the expected state.  For operations where the position
    # of blocks is not pinned by the property the order produced here is one admissible
    # choice (it emulates "unjoined variables first, then the rest of their block; joined
    # block at the position of the first affected distribution"); the checker validates the
    # actual order with `check_order` and then calls `adopt_order`.

    def unjoin(self, U):
        U = set(U)
        new = []
        for b in self.blocks:
            if len(b.names) > 1 and U & set(b.names):
                for n in b.names:
                    if n in U:
                        new.append(Block([n], b.level))
                keep = [n for n in b.names if n not in U]
                if keep:
                    new.append(Block(keep, b.level))
            else:
                new.append(b.copy())
        self.blocks = new
        self._prune()

    def select(self, sel):
        sel = set(sel)
        new = []
        for b in self.blocks:
            keep = [n for n in b.names if n in sel]
            if keep:
                new.append(Block(keep, b.level))
        self.blocks = new
        self._prune()

    def slice(self, start, stop):
        self.blocks = [b.copy() for b in self.blocks[start:stop]]
        self._prune()

    def join(self, J, new_entry):
        """J: names to join (same level).  new_entry(a, b) -> entry for pairs that had no
        covariance before or whose covariance was 0 (a before b in collection order)."""
        order = [n for n in self.names() if n in set(J)]
        level = self.level_of(order[0])
        old = {}
        for i, a in enumerate(order):
            for c in order[:i]:
                old[frozenset((a, c))] = self.get_cov(a, c)
        self.unjoin(order)
        new = []
        placed = False
        for b in self.blocks:
            if set(b.names) & set(order):
                if not placed:
                    placed = True
                    new.append(Block(order, level))
            else:
                new.append(b)
        self.blocks = new
        for i, a in enumerate(order):
            for c in order[:i]:
                k = frozenset((a, c))
                e = old[k]
                if is_zero(e):
                    e = new_entry(c, a)
                self.cov[k] = e
        self._prune()
        return order

    def subs(self, params, names):
        """params: symbol name -> entry; names: rv name -> new rv name (fresh)."""

        def s(e):
            if e[0] == 's' and e[1] in params:
                return params[e[1]]
            return e

        self.var = {k: s(v) for k, v in self.var.items()}
        self.mean = {k: s(v) for k, v in self.mean.items()}
        self.cov = {k: s(v) for k, v in self.cov.items()}
        if names:
            r = lambda n: names.get(n, n)  # noqa
            for b in self.blocks:
                b.names = [r(n) for n in b.names]
            self.var = {r(k): v for k, v in self.var.items()}
            self.mean = {r(k): v for k, v in self.mean.items()}
            self.cov = {frozenset(r(x) for x in k): v for k, v in self.cov.items()}

    def permute_blocks(self, perm):
        self.blocks = [self.blocks[i] for i in perm]

    def adopt_order(self, actual_blocks):
        """Re-order blocks to the (validated) actual order."""
        by = {tuple(b.names): b for b in self.blocks}
        self.blocks = [by[tuple(t)] for t in actual_blocks]


def removed_from_middle(prev: RefRVs, removed):
    """True when a removed variable lies strictly between two kept variables of its block."""
    removed = set(removed)
    for b in prev.blocks:
        kept_idx = [i for i, n in enumerate(b.names) if n not in removed]
        if len(kept_idx) >= 2:
            for i, n in enumerate(b.names):
                if n in removed and kept_idx[0] < i < kept_idx[-1]:
                    return True
    return False


def check_order(prev_blocks, expected_blocks, actual_blocks):
    """Validate the order of `actual_blocks` (list of name tuples) after an operation.

    prev_blocks      block tuples before the operation
    expected_blocks  block tuples expected afterwards (any order of blocks, fixed order inside)
    Returns None when fine, else (kind, message) with kind in
    'partition' | 'needless-change' | 'unaffected-reordered'.
    """
    exp = sorted(map(tuple, expected_blocks))
    act = sorted(map(tuple, actual_blocks))
    if exp != act:
        return 'partition', f'blocks {list(map(tuple, actual_blocks))} expected (in some order) {list(map(tuple, expected_blocks))}'
    newnames = {n for t in expected_blocks for n in t}
    filtered_prev = [n for t in prev_blocks for n in t if n in newnames]
    flat = [n for t in actual_blocks for n in t]
    pos = {n: i for i, n in enumerate(filtered_prev)}
    if len(pos) == len(newnames):  # every name existed before (not true for '+', handled by the caller)
        admissible = True
        for t in expected_blocks:
            idx = [pos[n] for n in t]
            if idx != list(range(idx[0], idx[0] + len(idx))):
                admissible = False
        if admissible:
            if flat != filtered_prev:
                return 'needless-change', f'every block is contiguous in the previous order {filtered_prev} but the order became {flat}'
            return None
    prevset = set(map(tuple, prev_blocks))
    unaffected = [tuple(t) for t in actual_blocks if tuple(t) in prevset]
    before = [tuple(t) for t in prev_blocks if tuple(t) in set(unaffected)]
    if unaffected != before:
        return 'unaffected-reordered', f'distributions not touched by the operation changed their relative order: {before} -> {unaffected}'
    return None


# ------------------------------------------------------------------------------------------
# numeric references


def sym(A):
    return (A + A.T) / 2.0


def eig_min(A):
    return float(np.linalg.eigvalsh(sym(A))[0])


def clip_projection(A):
    """Nearest symmetric PSD matrix in Frobenius norm (Higham 1988): clip negative eigenvalues."""
    w, V = np.linalg.eigh(sym(A))
    return (V * np.maximum(w, 0.0)) @ V.T


def fro(A):
    return float(np.sqrt(np.sum(np.asarray(A, dtype=float) ** 2)))


def classify(A, margin=1e-6):
    """'pd' (min eig >= margin*||A||), 'indef' (min eig <= -margin*||A||), else 'near'."""
    nrm = fro(A)
    lo = eig_min(A)
    if nrm == 0.0:
        return 'near'
    if lo >= margin * nrm:
        return 'pd'
    if lo <= -margin * nrm:
        return 'indef'
    return 'near'


def cov_to_sdcorr(C):
    sd = np.sqrt(np.diag(C))
    corr = C / np.outer(sd, sd)
    np.fill_diagonal(corr, 1.0)
    return sd, corr


def sdcorr_to_cov(sd, corr):
    n = len(sd)
    C = np.empty((n, n))
    for i in range(n):
        for j in range(n):
            C[i, j] = sd[i] * sd[j] * (1.0 if i == j else corr[i, j])
    return C


def lower_tri(ints, n, off=0, diag_min=0.25, div=4.0):
    """n x n lower triangular matrix from a list of ints (total: indexes modulo the length);
    diagonal entries |k|/div + diag_min > 0."""
    L = np.zeros((n, n))
    k = off
    m = max(1, len(ints))
    for i in range(n):
        for j in range(i + 1):
            v = ints[k % m] if ints else 0
            k += 1
            L[i, j] = (abs(v) / div + diag_min) if i == j else v / div
    return L, k
