"""E2 -- reference NM-TRAN interpreter (no pharmpy import).

Reads a control stream *text* and gives it a meaning under NM-TRAN / PREDPP rules:

* record splitting (``$NAME``, >=3 letter abbreviations, ``;`` comments, ``&`` continuation)
* abbreviated code: hand written recursive-descent parser with Fortran precedence,
  sequential execution, IF/ELSEIF/ELSE/ENDIF blocks with nesting, logical IF
* $THETA/$OMEGA/$SIGMA parameter records
* PREDPP library table (ADVAN1-4, 10-12 with their TRANS) -> rate constants; $DES

Written from the NONMEM users guides (Guide IV/V/VI/VIII) and docs/NONMEM.rst, not from
pharmpy's code.
"""

from __future__ import annotations

import math
import re

SMALLZ = 2.8e-103
INF = float('inf')


class Unsupported(Exception):
    """Construct outside the subset this reference implements."""


class NMSyntaxError(Exception):
    pass


class UndefinedVariable(Exception):
    pass


# ======================================================================================
# record splitting

RECORD_NAMES = [
    'ABBREVIATED', 'AES', 'AESINITIAL', 'ANNEAL', 'BIND', 'CHAIN', 'CONTR', 'COVARIANCE', 'DATA', 'DEFAULT',
    'DES', 'DESIGN', 'ERROR', 'ESTIMATION', 'ESTIMATE', 'ETAS', 'FORMAT', 'INDEX', 'INDXS', 'INFN', 'INPUT',
    'LEVEL', 'MIX', 'MODEL', 'MSFI', 'NONPARAMETRIC', 'OLKJDF', 'OMEGA', 'OMEGAP', 'OMEGAPD', 'OMIT',
    'OVARF', 'PHIS', 'PK', 'PRED', 'PRIOR', 'PROBLEM', 'RCOV', 'RCOVI', 'SCATTERPLOT', 'SIGMA', 'SIGMAP',
    'SIGMAPD', 'SIMULATION', 'SIMULATE', 'SIZES', 'SLKJDF', 'SUBROUTINES', 'SUPER', 'SVARF', 'TABLE',
    'THETA', 'THETAI', 'THETAP', 'THETAPV', 'THETAR', 'TOL', 'TTDF', 'WARNINGS',
]


def canonical_record_name(raw: str) -> str:
    """raw is the text after '$' (letters only), any case. NM-TRAN accepts abbreviations of at
    least 3 letters ($PK, $PRED, $DES, $MIX, $TOL have short full names)."""
    r = raw.upper()
    if r in ('PK', 'PRED', 'DES', 'MIX', 'TOL', 'AES'):
        return r
    if r == 'INPT':
        return 'INPUT'
    if r == 'INFILE':
        return 'DATA'
    if r in ('EST', 'ESTM'):
        return 'ESTIMATION'
    if r in ('SIM', 'SIML', 'SIMULATE'):
        return 'SIMULATION'
    if r == 'SUBS':
        return 'SUBROUTINES'
    if r == 'COVR':
        return 'COVARIANCE'
    if len(r) >= 3:
        cands = [n for n in RECORD_NAMES if n.startswith(r)]
        if r in cands:
            return r
        if cands:
            # shortest full name wins; NONMEM's own priority list resolves e.g. $EST -> ESTIMATION
            pri = ['PROBLEM', 'INPUT', 'DATA', 'SUBROUTINES', 'MODEL', 'ABBREVIATED', 'PRED', 'THETA', 'OMEGA',
                   'SIGMA', 'ESTIMATION', 'COVARIANCE', 'TABLE', 'SIMULATION', 'SCATTERPLOT', 'ERROR']
            for n in pri:
                if n in cands:
                    return n
            return sorted(cands, key=len)[0]
    return r


def split_records(text: str):
    """-> list of (raw_name_with_dollar, canonical_name, content_text). Text before the first
    record is returned as a record with canonical name None."""
    text = text.replace('\r\n', '\n')
    out = []
    cur_name = None
    cur_raw = ''
    cur = []
    for line in text.split('\n'):
        m = re.match(r'^([ \t\x00]*)\$([A-Za-z]+)(.*)$', line, re.S)
        if m:
            out.append((cur_raw, cur_name, '\n'.join(cur)))
            cur_raw = '$' + m.group(2)
            cur_name = canonical_record_name(m.group(2))
            cur = [m.group(3)]
        else:
            cur.append(line)
    out.append((cur_raw, cur_name, '\n'.join(cur)))
    if out and out[0][1] is None and out[0][2].strip() == '' and out[0][0] == '':
        out = out[1:]
    return out


def strip_comment(line: str) -> str:
    i = line.find(';')
    return line if i < 0 else line[:i]


def logical_lines(content: str):
    """Lines with comments removed, NUL -> blank, '&' continuation joined, verbatim lines dropped."""
    lines = []
    pending = ''
    for raw in content.replace('\x00', ' ').split('\n'):
        if raw.lstrip().startswith('"'):
            continue
        ln = strip_comment(raw).rstrip()
        if ln.endswith('&'):
            pending += ln[:-1] + ' '
            continue
        ln = pending + ln
        pending = ''
        if ln.strip():
            lines.append(ln.strip())
    if pending.strip():
        lines.append(pending.strip())
    return lines


# ======================================================================================
# abbreviated code: tokenizer

_TOKEN_RE = re.compile(
    r"""
    (?P<ws>[ \t]+)
  | (?P<dotop>\.(?:EQ|NE|LT|LE|GT|GE|AND|OR|NOT|EQN|NEN)\.)
  | (?P<num>(?:\d+\.?\d*|\.\d+)(?:[ED][+-]?\d+)?)
  | (?P<name>[A-Z_][A-Z0-9_]*)
  | (?P<op>\*\*|==|/=|<=|>=|[-+*/()=,<>])
    """,
    re.X,
)


def tokenize(line: str):
    s = line.upper()
    pos = 0
    toks = []
    while pos < len(s):
        m = _TOKEN_RE.match(s, pos)
        if not m:
            raise NMSyntaxError(f'cannot tokenize {s[pos:]!r}')
        kind = m.lastgroup
        txt = m.group()
        if kind == 'num':
            # "1.EQ.2": the dot belongs to the operator, not to the number
            m2 = re.match(r'(\d+)\.(?:EQ|NE|LT|LE|GT|GE|AND|OR|NOT)\.', s[pos:])
            if m2 and '.' in txt:
                txt = m2.group(1)
                toks.append(('num', txt))
                pos += len(txt)
                continue
        if kind != 'ws':
            toks.append((kind, txt))
        pos = m.end()
    return toks


# ======================================================================================
# abbreviated code: parser (Fortran precedence)
#   ** (right assoc) > unary +/- > * / > + - > relational > .NOT. > .AND. > .OR.

REL = {'.EQ.': '==', '==': '==', '.NE.': '/=', '/=': '/=', '.LT.': '<', '<': '<', '.LE.': '<=', '<=': '<=',
       '.GT.': '>', '>': '>', '.GE.': '>=', '>=': '>=', '.EQN.': '==', '.NEN.': '/='}

FUNC1 = {
    'EXP', 'DEXP', 'PEXP', 'LOG', 'DLOG', 'ALOG', 'PLOG', 'LOG10', 'DLOG10', 'ALOG10', 'PLOG10', 'SQRT', 'DSQRT',
    'PSQRT', 'SIN', 'DSIN', 'COS', 'DCOS', 'TAN', 'DTAN', 'PTAN', 'ASIN', 'PASIN', 'ACOS', 'PACOS', 'ATAN',
    'PATAN', 'ABS', 'DABS', 'INT', 'DINT', 'GAMLN', 'PDZ', 'PZR', 'PNP', 'PHE', 'PNG', 'PHI',
}
FUNC2 = {'MOD', 'DMOD'}
INDEXED = {'THETA', 'ETA', 'EPS', 'ERR', 'A', 'A_0', 'DADT', 'OMEGA', 'SIGMA'}


class _P:
    def __init__(self, toks):
        self.t = toks
        self.i = 0

    def peek(self):
        return self.t[self.i] if self.i < len(self.t) else (None, None)

    def next(self):
        tok = self.peek()
        self.i += 1
        return tok

    def accept(self, txt):
        if self.peek()[1] == txt:
            self.i += 1
            return True
        return False

    def expect(self, txt):
        if not self.accept(txt):
            raise NMSyntaxError(f'expected {txt} got {self.peek()}')

    # --- logical
    def logical(self):
        e = self.and_()
        while self.peek()[1] == '.OR.':
            self.next()
            e = ('or', e, self.and_())
        return e

    def and_(self):
        e = self.not_()
        while self.peek()[1] == '.AND.':
            self.next()
            e = ('and', e, self.not_())
        return e

    def not_(self):
        if self.peek()[1] == '.NOT.':
            self.next()
            return ('not', self.not_())
        return self.rel()

    def rel(self):
        a = self.arith()
        k, t = self.peek()
        if t in REL:
            self.next()
            b = self.arith()
            return ('rel', REL[t], a, b)
        return a

    # --- arithmetic
    def arith(self):
        k, t = self.peek()
        if t in ('+', '-'):
            self.next()
            e = self.term()
            if t == '-':
                e = ('neg', e)
        else:
            e = self.term()
        while self.peek()[1] in ('+', '-'):
            op = self.next()[1]
            e = ('bin', op, e, self.term())
        return e

    def term(self):
        e = self.factor()
        while self.peek()[1] in ('*', '/'):
            op = self.next()[1]
            e = ('bin', op, e, self.factor())
        return e

    def factor(self):
        base = self.primary()
        if self.peek()[1] == '**':
            self.next()
            # right associative; the exponent may carry a sign in NM-TRAN input
            k, t = self.peek()
            if t in ('+', '-'):
                self.next()
                ex = self.factor()
                if t == '-':
                    ex = ('neg', ex)
            else:
                ex = self.factor()
            return ('bin', '**', base, ex)
        return base

    def primary(self):
        k, t = self.next()
        if k == 'num':
            return ('num', float(t.replace('D', 'E')))
        if t == '(':
            e = self.logical()
            self.expect(')')
            return e
        if k == 'name':
            if self.peek()[1] == '(':
                if t in FUNC1:
                    self.next()
                    a = self.arith()
                    self.expect(')')
                    return ('call', t, (a,))
                if t in FUNC2:
                    self.next()
                    a = self.arith()
                    self.expect(',')
                    b = self.arith()
                    self.expect(')')
                    return ('call', t, (a, b))
                if t in INDEXED:
                    self.next()
                    idx = [self.index()]
                    while self.accept(','):
                        idx.append(self.index())
                    self.expect(')')
                    return ('idx', 'EPS' if t == 'ERR' else t, tuple(idx))
                raise Unsupported(f'subscripted variable or unknown function {t}')
            return ('var', t)
        raise NMSyntaxError(f'unexpected token {t!r}')

    def index(self):
        k, t = self.next()
        if k == 'num' and re.fullmatch(r'\d+', t):
            return int(t)
        raise Unsupported(f'non literal subscript {t}')


def parse_lhs(p: _P):
    k, t = p.next()
    if k != 'name':
        raise NMSyntaxError(f'bad assignment target {t}')
    if p.peek()[1] == '(':
        if t not in ('A_0', 'DADT', 'A'):
            raise Unsupported(f'assignment to array element {t}')
        p.next()
        n = p.index()
        p.expect(')')
        return f'{t}({n})'
    return t


def parse_code(content: str):
    """-> list of statements:
        ('asg', lhs, expr) | ('if', [(cond, [stmts]), ...], else_stmts|None)"""
    lines = logical_lines(content)
    pos = 0

    def block(until):
        nonlocal pos
        out = []
        while pos < len(lines):
            toks = tokenize(lines[pos])
            head = toks[0][1] if toks else None
            nxt = toks[1][1] if len(toks) > 1 else None
            kw = head
            if head == 'ELSE' and nxt == 'IF':
                kw = 'ELSEIF'
            if head == 'END' and nxt == 'IF':
                kw = 'ENDIF'
            if head == 'END' and nxt == 'DO':
                kw = 'ENDDO'
            if kw in until:
                return out, kw, toks
            pos += 1
            if head == 'IF' and nxt == '(':
                p = _P(toks)
                p.next()
                p.expect('(')
                cond = p.logical()
                p.expect(')')
                if p.peek()[1] == 'THEN':
                    branches = []
                    els = None
                    body, kw2, t2 = block({'ELSEIF', 'ELSE', 'ENDIF'})
                    branches.append((cond, body))
                    while True:
                        if kw2 is None:
                            raise NMSyntaxError('IF block not closed')
                        pos += 1
                        if kw2 == 'ENDIF':
                            break
                        if kw2 == 'ELSEIF':
                            p2 = _P(t2)
                            p2.next()
                            if t2[0][1] == 'ELSE':
                                p2.next()
                            p2.expect('(')
                            c2 = p2.logical()
                            p2.expect(')')
                            if p2.peek()[1] != 'THEN':
                                raise NMSyntaxError('ELSEIF without THEN')
                            body, kw2, t2 = block({'ELSEIF', 'ELSE', 'ENDIF'})
                            branches.append((c2, body))
                        elif kw2 == 'ELSE':
                            els, kw2, t2 = block({'ENDIF'})
                    out.append(('if', branches, els))
                else:
                    lhs = parse_lhs(p)
                    p.expect('=')
                    e = p.arith()
                    if p.peek()[0] is not None:
                        raise NMSyntaxError(f'trailing tokens {p.peek()}')
                    out.append(('if', [(cond, [('asg', lhs, e)])], None))
            elif head in ('EXIT', 'CALL', 'RETURN', 'DO', 'DOWHILE', 'WHILE', 'ENDDO', 'COMRES', 'WRITE', 'PRINT', 'OPEN', 'CLOSE', 'REWIND'):
                raise Unsupported(head)
            elif head == '(' and toks[-1][1] == ')':
                # pseudo statement such as (ONLY OBSERVATIONS)
                raise Unsupported('pseudo statement')
            else:
                p = _P(toks)
                lhs = parse_lhs(p)
                p.expect('=')
                e = p.arith()
                if p.peek()[0] is not None:
                    raise NMSyntaxError(f'trailing tokens {p.peek()} in {lines[pos - 1]!r}')
                out.append(('asg', lhs, e))
        return out, None, None

    stmts, kw, _ = block(set())
    return stmts


# ======================================================================================
# evaluation


def _phi(x):
    return 0.5 * (1.0 + math.erf(x / math.sqrt(2.0)))


def call_function(name, args):
    x = args[0]
    if name in ('EXP', 'DEXP'):
        try:
            return math.exp(x)
        except OverflowError:
            return INF
    if name == 'PEXP':
        return math.exp(100.0) if x > 100.0 else math.exp(x)
    if name in ('LOG', 'DLOG', 'ALOG'):
        return math.log(x) if x > 0 else (-INF if x == 0 else float('nan'))
    if name == 'PLOG':
        return math.log(SMALLZ) if x < SMALLZ else math.log(x)
    if name in ('LOG10', 'DLOG10', 'ALOG10'):
        return math.log10(x) if x > 0 else (-INF if x == 0 else float('nan'))
    if name == 'PLOG10':
        return math.log10(SMALLZ) if x < SMALLZ else math.log10(x)
    if name in ('SQRT', 'DSQRT'):
        return math.sqrt(x) if x >= 0 else float('nan')
    if name == 'PSQRT':
        return 0.0 if x < 0 else math.sqrt(x)
    if name in ('SIN', 'DSIN'):
        return math.sin(x)
    if name in ('COS', 'DCOS'):
        return math.cos(x)
    if name in ('TAN', 'DTAN', 'PTAN'):
        return math.tan(x)
    if name in ('ASIN', 'PASIN'):
        return math.asin(x)
    if name in ('ACOS', 'PACOS'):
        return math.acos(x)
    if name in ('ATAN', 'PATAN'):
        return math.atan(x)
    if name in ('ABS', 'DABS'):
        return abs(x)
    if name in ('INT', 'DINT'):
        return float(math.trunc(x))
    if name == 'GAMLN':
        return math.lgamma(x)
    if name == 'PDZ':
        return 1.0 / SMALLZ if abs(x) < SMALLZ else 1.0 / x
    if name == 'PZR':
        return SMALLZ if abs(x) < SMALLZ else x
    if name == 'PNP':
        return SMALLZ if x < SMALLZ else x
    if name == 'PHE':
        return 100.0 if x > 100.0 else x
    if name == 'PNG':
        return 0.0 if x < 0 else x
    if name == 'PHI':
        return _phi(x)
    if name in ('MOD', 'DMOD'):
        y = args[1]
        if y == 0:
            return float('nan')
        return math.fmod(x, y)  # Fortran MOD: result has the sign of the first argument
    raise Unsupported(name)


class Env:
    """Variables + indexed quantities."""

    def __init__(self, theta=(), eta=(), eps=(), data=None, amounts=None, extra=None):
        self.vars = {}
        if data:
            self.vars.update({k.upper(): float(v) for k, v in data.items()})
        if extra:
            self.vars.update(extra)
        self.theta = list(theta)
        self.eta = list(eta)
        self.eps = list(eps)
        self.amounts = dict(amounts or {})  # n -> value
        self.written = []  # order of first assignment

    def get(self, name):
        if name in self.vars:
            return self.vars[name]
        raise UndefinedVariable(name)

    def set(self, name, val):
        if name not in self.vars or name not in self.written:
            if name not in self.written:
                self.written.append(name)
        self.vars[name] = val


NONFINITE = [0]  # incremented whenever an intermediate result is not a finite number


def eval_expr(e, env: Env):
    v = _eval_expr(e, env)
    if v != v or v in (INF, -INF):
        NONFINITE[0] += 1
    return v


def _eval_expr(e, env: Env):
    k = e[0]
    if k == 'num':
        return e[1]
    if k == 'var':
        return env.get(e[1])
    if k == 'neg':
        return -eval_expr(e[1], env)
    if k == 'bin':
        a = eval_expr(e[2], env)
        b = eval_expr(e[3], env)
        op = e[1]
        if op == '+':
            return a + b
        if op == '-':
            return a - b
        if op == '*':
            return a * b
        if op == '/':
            if b == 0:
                return INF if a > 0 else (-INF if a < 0 else float('nan'))
            return a / b
        if op == '**':
            try:
                if a == 0 and b < 0:
                    return INF
                if a < 0 and b != int(b):
                    return float('nan')
                return a**b
            except OverflowError:
                return INF
    if k == 'call':
        return call_function(e[1], [eval_expr(a, env) for a in e[2]])
    if k == 'idx':
        nm, idx = e[1], e[2]
        try:
            if nm == 'THETA':
                return env.theta[idx[0] - 1]
            if nm == 'ETA':
                return env.eta[idx[0] - 1]
            if nm == 'EPS':
                return env.eps[idx[0] - 1]
            if nm == 'A':
                return env.amounts[idx[0]]
        except (IndexError, KeyError):
            raise UndefinedVariable(f'{nm}{idx}')
        key = f'{nm}({",".join(str(i) for i in idx)})'
        return env.get(key)
    if k in ('rel', 'and', 'or', 'not'):
        return 1.0 if eval_cond(e, env) else 0.0
    raise Unsupported(str(e))


def eval_cond(c, env: Env) -> bool:
    k = c[0]
    if k == 'or':
        return eval_cond(c[1], env) or eval_cond(c[2], env)
    if k == 'and':
        return eval_cond(c[1], env) and eval_cond(c[2], env)
    if k == 'not':
        return not eval_cond(c[1], env)
    if k == 'rel':
        a = eval_expr(c[2], env)
        b = eval_expr(c[3], env)
        op = c[1]
        return {'==': a == b, '/=': a != b, '<': a < b, '<=': a <= b, '>': a > b, '>=': a >= b}[op]
    raise NMSyntaxError('arithmetic expression used as condition')


def exec_code(stmts, env: Env):
    for s in stmts:
        if s[0] == 'asg':
            env.set(s[1], eval_expr(s[2], env))
        else:
            done = False
            for cond, body in s[1]:
                if eval_cond(cond, env):
                    exec_code(body, env)
                    done = True
                    break
            if not done and s[2] is not None:
                exec_code(s[2], env)
    return env


def branch_margin(stmts, env: Env):
    """Smallest relative distance of any evaluated comparison / INT argument from its branch
    point during execution (used by callers to resample inputs near branch points)."""
    # simple re-execution collecting margins
    margins = []

    def cond(c, env):
        k = c[0]
        if k in ('or', 'and'):
            cond(c[1], env)
            cond(c[2], env)
        elif k == 'not':
            cond(c[1], env)
        elif k == 'rel':
            a = eval_expr(c[2], env)
            b = eval_expr(c[3], env)
            margins.append(abs(a - b) / max(1.0, abs(a), abs(b)))

    def run(stmts, env):
        for s in stmts:
            if s[0] == 'asg':
                env.set(s[1], eval_expr(s[2], env))
            else:
                done = False
                for c, body in s[1]:
                    cond(c, env)
                    if eval_cond(c, env):
                        run(body, env)
                        done = True
                        break
                if not done and s[2] is not None:
                    run(s[2], env)

    run(stmts, env)
    return min(margins) if margins else INF


def assigned_names(stmts, out=None):
    if out is None:
        out = []
    for s in stmts:
        if s[0] == 'asg':
            if s[1] not in out:
                out.append(s[1])
        else:
            for _, body in s[1]:
                assigned_names(body, out)
            if s[2] is not None:
                assigned_names(s[2], out)
    return out


# ======================================================================================
# $THETA / $OMEGA / $SIGMA

_NUM = r'[-+]?(?:\d+\.?\d*|\.\d+)(?:[EeDd][-+]?\d+)?'


def _num(s: str) -> float:
    u = s.upper()
    if u in ('INF', '+INF'):
        return INF
    if u == '-INF':
        return -INF
    v = float(u.replace('D', 'E'))
    if v >= 1000000:
        return INF
    if v <= -1000000:
        return -INF
    return v


def _record_text(content: str) -> str:
    return ' '.join(strip_comment(ln) for ln in content.replace('\x00', ' ').split('\n'))


def parse_theta_record(content: str):
    """-> list of dict(init, lower, upper, fix)"""
    s = _record_text(content).upper()
    out = []
    pos = 0
    tok = re.compile(
        r'\s*(?:(?P<par>\((?P<inner>[^()]*)\)\s*(?:X\s*(?P<rep>\d+))?)|(?P<fix>FIX(?:ED|E)?)\b|(?P<num>' + _NUM + r'|-?INF)|(?P<opt>[A-Z]+(?:\s*=\s*\S+)?)|(?P<comma>,))',
    )
    while pos < len(s):
        if s[pos:].strip() == '':
            break
        m = tok.match(s, pos)
        if not m:
            raise NMSyntaxError(f'$THETA: cannot parse {s[pos:]!r}')
        pos = m.end()
        if m.group('par') is not None:
            inner = m.group('inner')
            fix = bool(re.search(r'\bFIX(?:ED|E)?\b', inner))
            inner2 = re.sub(r'\bFIX(?:ED|E)?\b', ' ', inner)
            parts = [p.strip() for p in re.split(r',', inner2)]
            if len(parts) == 1:
                parts = inner2.split()
                if len(parts) == 1:
                    lo, init, up = -INF, _num(parts[0]), INF
                elif len(parts) == 2:
                    lo, init, up = _num(parts[0]), _num(parts[1]), INF
                elif len(parts) == 3:
                    lo, init, up = _num(parts[0]), _num(parts[1]), _num(parts[2])
                else:
                    raise NMSyntaxError('$THETA parenthesis')
            elif len(parts) == 2:
                lo, init, up = _num(parts[0]), _num(parts[1]), INF
            elif len(parts) == 3:
                if parts[1] == '':
                    raise Unsupported('$THETA (low,,up) without initial estimate')
                lo = _num(parts[0]) if parts[0] else -INF
                init = _num(parts[1])
                up = _num(parts[2]) if parts[2] else INF
            else:
                raise NMSyntaxError('$THETA parenthesis')
            rep = int(m.group('rep')) if m.group('rep') else 1
            # FIX directly after the parenthesis
            m2 = re.match(r'\s*(FIX(?:ED|E)?)\b', s[pos:])
            if m2 and not m.group('rep'):
                fix = True
                pos += m2.end()
            for _ in range(rep):
                out.append(dict(init=init, lower=lo, upper=up, fix=fix))
        elif m.group('num') is not None:
            init = _num(m.group('num'))
            fix = False
            m2 = re.match(r'\s*(FIX(?:ED|E)?)\b', s[pos:])
            if m2:
                fix = True
                pos += m2.end()
            out.append(dict(init=init, lower=-INF, upper=INF, fix=fix))
        elif m.group('fix') is not None:
            raise NMSyntaxError('$THETA stray FIX')
        elif m.group('comma') is not None:
            continue
        else:
            continue  # option such as NUMBERPOINTS=n, ABORT
    for t in out:
        if t['lower'] == t['init'] == t['upper']:
            t['fix'] = True
        if t['fix']:
            pass
    return out


_OPT_WORDS = {
    'FIX': ('FIX', 'FIXE', 'FIXED'),
    'SD': ('STANDARD', 'SD'),
    'VAR': ('VARIANCE',),
    'CORR': ('CORRELATION',),
    'COV': ('COVARIANCE',),
    'CHOLESKY': ('CHOLESKY',),
}


def _opt_kind(word: str):
    w = word.upper()
    if w in ('FIX', 'FIXE', 'FIXED'):
        return 'FIX'
    if w == 'SD' or ('STANDARD'.startswith(w) and len(w) >= 1 and w[0] == 'S' and w not in ('SAME',)):
        return 'SD'
    if 'VARIANCE'.startswith(w) and w[0] == 'V' and w != 'VALUES':
        return 'VAR'
    if 'CORRELATION'.startswith(w) and len(w) >= 3:
        return 'CORR'
    if 'COVARIANCE'.startswith(w) and len(w) >= 3:
        return 'COV'
    if 'CHOLESKY'.startswith(w) and len(w) >= 3:
        return 'CHOLESKY'
    return None


def parse_omega_record(content: str):
    """-> dict(kind='diag'|'block'|'same', size, matrix (list of rows, full symmetric, variance scale),
               fix (per diag element list for diag; bool for block), nsame)"""
    s = _record_text(content).upper()
    toks = re.findall(r'\(|\)|,|' + _NUM + r'|[A-Z]+', s)
    i = 0
    block = None
    diag_n = None
    same = None
    values = None
    rec_opts = set()
    items = []  # (value, set(opts), rep)

    def read_paren_int():
        nonlocal i
        if i < len(toks) and toks[i] == '(':
            n = int(float(toks[i + 1]))
            assert toks[i + 2] == ')'
            i += 3
            return n
        return None

    while i < len(toks):
        t = toks[i]
        if re.fullmatch(r'BLO(C|CK)?', t):
            i += 1
            block = read_paren_int() or -1
        elif re.fullmatch(r'DIA(G|GO|GON|GONA|GONAL)?', t):
            i += 1
            diag_n = read_paren_int()
        elif t == 'SAME':
            i += 1
            same = read_paren_int() or 1
        elif t == 'VALUES':
            i += 1
            assert toks[i] == '('
            j = toks.index(')', i)
            nums = [x for x in toks[i + 1 : j] if x != ',']
            values = (_num(nums[0]), _num(nums[1]))
            i = j + 1
        elif t == '(':
            j = toks.index(')', i)
            inner = [x for x in toks[i + 1 : j] if x != ',']
            opts = set()
            val = None
            for x in inner:
                if re.fullmatch(_NUM, x):
                    if val is not None:
                        raise NMSyntaxError('$OMEGA: two values in parenthesis')
                    val = _num(x)
                else:
                    k = _opt_kind(x)
                    if k is None:
                        raise NMSyntaxError(f'$OMEGA: unknown option {x}')
                    opts.add(k)
            i = j + 1
            rep = 1
            if i < len(toks) and re.fullmatch(r'X\d*', toks[i]):
                if toks[i] == 'X':
                    rep = int(toks[i + 1])
                    i += 2
                else:
                    rep = int(toks[i][1:])
                    i += 1
            items.append((val, opts, rep))
        elif t == ',':
            i += 1
        elif re.fullmatch(_NUM, t):
            items.append((_num(t), set(), 1))
            i += 1
        else:
            k = _opt_kind(t)
            if k is None:
                raise NMSyntaxError(f'$OMEGA: unknown word {t}')
            # an option directly after an initial estimate belongs to the record for BLOCK,
            # to the preceding value for DIAGONAL
            if block is None and items and k in ('FIX', 'SD', 'VAR'):
                v, o, r = items[-1]
                items[-1] = (v, o | {k}, r)
            else:
                rec_opts.add(k)
            i += 1
    if same is not None:
        return dict(kind='same', size=block if block and block > 0 else None, nsame=same)
    if block is not None:
        n = block
        vals = []
        opts = set(rec_opts)
        for v, o, r in items:
            vals += [v] * r
            opts |= o
        if values is not None:
            vals = []
            for a in range(n):
                for b in range(a + 1):
                    vals.append(values[0] if a == b else values[1])
        if len(vals) != n * (n + 1) // 2:
            raise NMSyntaxError('$OMEGA BLOCK: wrong number of values')
        L = [[0.0] * n for _ in range(n)]
        k = 0
        for a in range(n):
            for b in range(a + 1):
                L[a][b] = vals[k]
                k += 1
        if 'CHOLESKY' in opts:
            M = [[sum(L[a][c] * L[b][c] for c in range(n)) for b in range(n)] for a in range(n)]
        else:
            M = [[L[max(a, b)][min(a, b)] for b in range(n)] for a in range(n)]
            sd = 'SD' in opts
            corr = 'CORR' in opts
            d = [M[a][a] for a in range(n)]
            sdv = [x if sd else math.sqrt(x) for x in d]
            for a in range(n):
                for b in range(n):
                    if a != b and corr:
                        M[a][b] = M[a][b] * sdv[a] * sdv[b]
            for a in range(n):
                M[a][a] = d[a] ** 2 if sd else d[a]
        return dict(kind='block', size=n, matrix=M, fix='FIX' in opts)
    # diagonal
    diag = []
    fixes = []
    for v, o, r in items:
        o = o | (rec_opts & {'SD', 'VAR'})
        val = v**2 if 'SD' in o else v
        for _ in range(r):
            diag.append(val)
            fixes.append('FIX' in o or 'FIX' in rec_opts)
    return dict(kind='diag', size=len(diag), diag=diag, fix=fixes)


def assemble_omegas(records):
    """records: list of parsed omega records in order -> list of blocks
    dict(start (1-based eta index), size, matrix, fix (bool or list), same_as (index of block) )"""
    blocks = []
    pos = 1
    for r in records:
        if r['kind'] == 'diag':
            for v, f in zip(r['diag'], r['fix']):
                blocks.append(dict(start=pos, size=1, matrix=[[v]], fix=f, same=False))
                pos += 1
        elif r['kind'] == 'block':
            blocks.append(dict(start=pos, size=r['size'], matrix=r['matrix'], fix=r['fix'], same=False))
            pos += r['size']
        else:
            prev = blocks[-1]
            for _ in range(r['nsame']):
                blocks.append(dict(start=pos, size=prev['size'], matrix=prev['matrix'], fix=prev['fix'], same=True))
                pos += prev['size']
    return blocks


# ======================================================================================
# $INPUT / $SUBROUTINES / $MODEL


def parse_input(content: str):
    """-> list of (name, dropped) with synonyms resolved to the name NM-TRAN uses in code."""
    s = _record_text(content)
    out = []
    reserved = {'ID', 'L1', 'L2', 'DV', 'MDV', 'TIME', 'DATE', 'DAT1', 'DAT2', 'DAT3', 'EVID', 'AMT', 'RATE', 'SS', 'II', 'ADDL', 'CMT', 'PCMT', 'CALL', 'CONT', 'XVID1', 'XVID2', 'XVID3', 'XVID4', 'XVID5', 'MRG_', 'RAW_', 'RPT_'}
    for item in re.split(r'[\s,]+', s.strip()):
        if not item:
            continue
        u = item.upper()
        if '=' in u:
            a, b = u.split('=', 1)
            if a in ('DROP', 'SKIP'):
                out.append((b, True))
            elif b in ('DROP', 'SKIP'):
                out.append((a, True))
            else:
                # synonym: reserved name wins as the data item label used by NM-TRAN
                out.append((a if a in reserved else (b if b in reserved else a), False))
        else:
            out.append((u, u in ('DROP', 'SKIP')))
    return out


def parse_subroutines(content: str):
    s = _record_text(content).upper()
    advan = None
    trans = None
    for m in re.finditer(r'\b(?:ADVAN\s*=\s*)?ADVAN(\d+)\b', s):
        advan = int(m.group(1))
    for m in re.finditer(r'\b(?:TRANS\s*=\s*)?TRANS(\d+)\b', s):
        trans = int(m.group(1))
    return advan, trans if trans is not None else 1


def parse_model_record(content: str):
    """-> list of (name, set(options)) in compartment order"""
    s = _record_text(content).upper()
    comps = []
    for m in re.finditer(r'COMP(?:ARTMENT)?\s*=?\s*(?:\(([^)]*)\)|([A-Z0-9_]+))', s):
        inner = m.group(1) if m.group(1) is not None else m.group(2)
        parts = [p for p in re.split(r'[\s,]+', inner.strip()) if p]
        name = parts[0]
        opts = set()
        for p in parts[1:]:
            for full in ('DEFDOSE', 'DEFOBSERVATION', 'NODOSE', 'NOOFF', 'INITIALOFF', 'EQUILIBRIUM', 'EXCLUDE'):
                if full.startswith(p) and len(p) >= 4:
                    opts.add(full)
        comps.append((name, opts))
    return comps


# ======================================================================================
# PREDPP library (NONMEM Users Guide VI, PREDPP; help items ADVANn / TRANSn)
# rate constants are returned as dict (i, j) -> value with j == 0 meaning output (elimination)

ADVAN_NCOMP = {1: 1, 2: 2, 3: 2, 4: 3, 10: 1, 11: 3, 12: 4}
ADVAN_DEFDOSE = {1: 1, 2: 1, 3: 1, 4: 1, 10: 1, 11: 1, 12: 1}
ADVAN_DEFOBS = {1: 1, 2: 2, 3: 1, 4: 2, 10: 1, 11: 1, 12: 2}
ADVAN_TRANS = {1: (1, 2), 2: (1, 2), 3: (1, 3, 4, 5, 6), 4: (1, 3, 4, 5, 6), 10: (1,), 11: (1, 4, 6), 12: (1, 4, 6)}
# required basic PK parameters per (advan, trans)
REQUIRED = {
    (1, 1): ['K'], (1, 2): ['CL', 'V'],
    (2, 1): ['K', 'KA'], (2, 2): ['CL', 'V', 'KA'],
    (3, 1): ['K', 'K12', 'K21'], (3, 3): ['CL', 'V', 'Q', 'VSS'], (3, 4): ['CL', 'V1', 'Q', 'V2'],
    (3, 5): ['AOB', 'ALPHA', 'BETA'], (3, 6): ['ALPHA', 'BETA', 'K21'],
    (4, 1): ['K', 'K23', 'K32', 'KA'], (4, 3): ['CL', 'V', 'Q', 'VSS', 'KA'], (4, 4): ['CL', 'V2', 'Q', 'V3', 'KA'],
    (4, 5): ['AOB', 'ALPHA', 'BETA', 'KA'], (4, 6): ['ALPHA', 'BETA', 'K32', 'KA'],
    (10, 1): ['VM', 'KM'],
    (11, 1): ['K', 'K12', 'K21', 'K13', 'K31'], (11, 4): ['CL', 'V1', 'Q2', 'V2', 'Q3', 'V3'],
    (11, 6): ['ALPHA', 'BETA', 'GAMMA', 'K21', 'K31'],
    (12, 1): ['K', 'K23', 'K32', 'K24', 'K42', 'KA'], (12, 4): ['CL', 'V2', 'Q3', 'V3', 'Q4', 'V4', 'KA'],
    (12, 6): ['ALPHA', 'BETA', 'GAMMA', 'K32', 'K42', 'KA'],
}


def predpp_rates(advan: int, trans: int, pk: dict):
    """Micro rate constants implied by the PK parameters (dict name -> value).
    Returns dict {(from, to): rate}, to == 0 is elimination. ADVAN10 returns {'VM','KM'} form
    through the key ('mm', 1)."""
    g = pk.__getitem__
    if advan in (1, 2):
        c = 1 if advan == 1 else 2
        k = g('K') if trans == 1 else g('CL') / g('V')
        r = {(c, 0): k}
        if advan == 2:
            r[(1, 2)] = g('KA')
        return r
    if advan in (3, 4):
        c, p = (1, 2) if advan == 3 else (2, 3)
        if trans == 1:
            k, kcp, kpc = g('K'), g(f'K{c}{p}'), g(f'K{p}{c}')
        elif trans == 3:
            k, kcp, kpc = g('CL') / g('V'), g('Q') / g('V'), g('Q') / (g('VSS') - g('V'))
        elif trans == 4:
            vc, vp = g(f'V{c}'), g(f'V{p}')
            k, kcp, kpc = g('CL') / vc, g('Q') / vc, g('Q') / vp
        elif trans == 5:
            aob, al, be = g('AOB'), g('ALPHA'), g('BETA')
            kpc = (aob * be + al) / (aob + 1.0)
            k = al * be / kpc
            kcp = al + be - kpc - k
        elif trans == 6:
            al, be, kpc = g('ALPHA'), g('BETA'), g(f'K{p}{c}')
            k = al * be / kpc
            kcp = al + be - kpc - k
        else:
            raise Unsupported(f'ADVAN{advan} TRANS{trans}')
        r = {(c, 0): k, (c, p): kcp, (p, c): kpc}
        if advan == 4:
            r[(1, 2)] = g('KA')
        return r
    if advan == 10:
        return {('mm', 1): (g('VM'), g('KM'))}
    if advan in (11, 12):
        c, p1, p2 = (1, 2, 3) if advan == 11 else (2, 3, 4)
        if trans == 1:
            k = g('K')
            k1, k1b = g(f'K{c}{p1}'), g(f'K{p1}{c}')
            k2, k2b = g(f'K{c}{p2}'), g(f'K{p2}{c}')
        elif trans == 4:
            vc, v1, v2 = g(f'V{c}'), g(f'V{p1}'), g(f'V{p2}')
            q1, q2 = g(f'Q{p1}'), g(f'Q{p2}')
            k, k1, k1b, k2, k2b = g('CL') / vc, q1 / vc, q1 / v1, q2 / vc, q2 / v2
        elif trans == 6:
            al, be, ga = g('ALPHA'), g('BETA'), g('GAMMA')
            k1b, k2b = g(f'K{p1}{c}'), g(f'K{p2}{c}')
            k = al * be * ga / (k1b * k2b)
            k2 = (al * be + al * ga + be * ga + k2b * k2b - k2b * (al + be + ga) - k * k1b) / (k1b - k2b)
            k1 = al + be + ga - k - k2 - k1b - k2b
        else:
            raise Unsupported(f'ADVAN{advan} TRANS{trans}')
        r = {(c, 0): k, (c, p1): k1, (p1, c): k1b, (c, p2): k2, (p2, c): k2b}
        if advan == 12:
            r[(1, 2)] = g('KA')
        return r
    raise Unsupported(f'ADVAN{advan}')


def rhs_from_rates(rates, amounts, ncomp):
    """dA/dt vector (1-based dict) of the linear (or ADVAN10 MM) system."""
    d = {i: 0.0 for i in range(1, ncomp + 1)}
    for (i, j), k in rates.items():
        if i == 'mm':
            vm, km = k
            d[1] -= vm * amounts[1] / (km + amounts[1])
            continue
        flow = k * amounts[i]
        d[i] -= flow
        if j != 0:
            d[j] += flow
    return d


def general_linear_rates(pk: dict, ncomp: int):
    """ADVAN5/7: Kij / KiTj names -> rates; j == 0 or j == ncomp+1 means output."""
    r = {}
    for name, val in pk.items():
        m = re.fullmatch(r'K(\d+)T(\d+)', name)
        if m:
            i, j = int(m.group(1)), int(m.group(2))
        else:
            m = re.fullmatch(r'K(\d{2,4})', name)
            if not m:
                continue
            digs = m.group(1)
            if len(digs) == 2:
                i, j = int(digs[0]), int(digs[1])
            elif len(digs) == 4:
                i, j = int(digs[:2]), int(digs[2:])
            else:
                # Kijk: i|jk or ij|k -- only one reading may denote existing compartments
                # (NONMEM asks for the KiTj form when both do)
                c1 = (int(digs[0]), int(digs[1:]))
                c2 = (int(digs[:2]), int(digs[2:]))
                ok = [c for c in (c1, c2) if 1 <= c[0] <= ncomp and 0 <= c[1] <= ncomp + 1 and not (c is c1 and c[1] == 0)]
                if len(ok) != 1:
                    raise Unsupported(f'ambiguous or impossible rate constant name {name}')
                i, j = ok[0]
        if j == ncomp + 1:
            j = 0
        if 1 <= i <= ncomp and 0 <= j <= ncomp:
            r[(i, j)] = val
    return r
