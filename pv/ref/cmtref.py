"""Reference model of a compartmental system (pure Python, does not import pharmpy).

Expressions are small JSON ASTs
    ['sym', name] | ['num', v] | ['amt', compartment_name] | ['mul', a, b] | ['div', a, b] | ['add', a, b]
evaluated with Python floats.  The system is a dict of compartments (by NAME, insertion
ordered) holding doses / lag time / bioavailability / zero-order input, and a dict of edge
rates keyed by (source name, destination name) where the destination OUT is the output.

The editing methods implement the *documented* meaning of the CompartmentalSystemBuilder
operations (docstrings in pharmpy/model/statements.py):

  add_compartment      "added without any flows to other compartments"
  remove_compartment   compartment (and therefore every flow from/to it) disappears
  add_flow             flow source -> destination with the given rate (a second add replaces)
  remove_flow          flow disappears
  move_dose            "Move dose with specified admid, move all if None" from source to destination;
                       ValueError when the source has no doses
  set_dose             "Set dose of compartment, replacing the previous" (None -> no doses)
  add_dose             "Add dose to compartment"
  remove_dose          "If admid is specified, only doses of that admid will be removed", else all
  set_lag_time / set_bioavailability / set_input      set that attribute
"""

from __future__ import annotations

import copy

OUT = '@output'


# ------------------------------------------------------------------------------------------
# expression ASTs


def amount_key(name):
    return f'A_{name}(t)'


def ast_eval(a, env):
    op = a[0]
    if op == 'sym':
        return float(env[a[1]])
    if op == 'num':
        return float(a[1])
    if op == 'amt':
        return float(env[amount_key(a[1])])
    if op == 'mul':
        return ast_eval(a[1], env) * ast_eval(a[2], env)
    if op == 'div':
        return ast_eval(a[1], env) / ast_eval(a[2], env)
    if op == 'add':
        return ast_eval(a[1], env) + ast_eval(a[2], env)
    raise ValueError(f'bad ast {a!r}')


def ast_rename(a, sigma):
    """simultaneous renaming of symbols"""
    op = a[0]
    if op == 'sym':
        return ['sym', sigma.get(a[1], a[1])]
    if op in ('num', 'amt'):
        return list(a)
    return [op] + [ast_rename(x, sigma) for x in a[1:]]


def ast_syms(a, out=None):
    if out is None:
        out = set()
    if a[0] == 'sym':
        out.add(a[1])
    elif a[0] not in ('num', 'amt'):
        for x in a[1:]:
            ast_syms(x, out)
    return out


def ast_amts(a, out=None):
    """names of compartments whose amount the expression mentions"""
    if out is None:
        out = set()
    if a[0] == 'amt':
        out.add(a[1])
    elif a[0] not in ('num', 'sym'):
        for x in a[1:]:
            ast_amts(x, out)
    return out


def ast_terms(a):
    """additive terms of a rate after distributing a quotient over a sum in its numerator:
    K1+K2 -> [K1, K2]; (CL+Q)/V -> [CL/V, Q/V]; CL/V + Q/V2 -> [CL/V, Q/V2]; anything else is one term.
    Returned as rendered text (the generator emits products/quotients in one fixed operand order)."""
    op = a[0]
    if op == 'add':
        return ast_terms(a[1]) + ast_terms(a[2])
    if op == 'div' and a[1][0] == 'add':
        return [t for x in a[1][1:] for t in ast_terms(['div', x, a[2]])]
    return [ast_render(a)]


def ast_render(a):
    op = a[0]
    if op == 'sym':
        return a[1]
    if op == 'num':
        return repr(a[1])
    if op == 'amt':
        return amount_key(a[1])
    sign = {'mul': '*', 'div': '/', 'add': '+'}[op]
    return f'({ast_render(a[1])}{sign}{ast_render(a[2])})'


# ------------------------------------------------------------------------------------------
# doses: dict(kind='bolus'|'rate'|'duration', amount=ast, admid=int, par=ast|None)


def dose_rename(d, sigma):
    return dict(kind=d['kind'], amount=ast_rename(d['amount'], sigma), admid=d['admid'], par=None if d['par'] is None else ast_rename(d['par'], sigma))


def dose_render(d):
    if d['kind'] == 'bolus':
        return f"Bolus({ast_render(d['amount'])},admid={d['admid']})"
    return f"Infusion({ast_render(d['amount'])},admid={d['admid']},{d['kind']}={ast_render(d['par'])})"


def dose_value(d, env):
    """comparable numeric descriptor of a dose"""
    return (d['kind'], d['admid'], ast_eval(d['amount'], env), None if d['par'] is None else ast_eval(d['par'], env))


def _view(raw):
    """pharmpy's Compartment.doses view: for more than one dose, infusions first (stable).
    Only used to mirror the *stored* order (needed by a known-finding predicate), never by
    the oracle, which compares doses as multisets."""
    if len(raw) > 1:
        return [d for d in raw if d['kind'] != 'bolus'] + [d for d in raw if d['kind'] == 'bolus']
    return list(raw)


ZERO = ['num', 0]
ONE = ['num', 1]


class RefSystem:
    def __init__(self):
        self.comps = {}  # name -> dict(doses=[...], stored=[...], lag=ast, F=ast, input=ast)
        self.edges = {}  # (src, dst|OUT) -> ast

    def copy(self):
        return copy.deepcopy(self)

    # -- editing -----------------------------------------------------------------------------
    def add_compartment(self, name, doses=(), lag=ZERO, F=ONE, input=ZERO):
        assert name not in self.comps
        self.comps[name] = dict(doses=list(doses), stored=list(doses), lag=lag, F=F, input=input)

    def remove_compartment(self, name):
        del self.comps[name]
        for k in [k for k in self.edges if name in k]:
            del self.edges[k]

    def add_flow(self, src, dst, rate):
        self.edges[(src, dst)] = rate

    def remove_flow(self, src, dst):
        del self.edges[(src, dst)]

    def move_dose(self, src, dst, admid=None):
        s, d = self.comps[src], self.comps[dst]
        if not s['doses']:
            raise ValueError('no doses to move')
        moved = [x for x in s['doses'] if admid is None or x['admid'] == admid]
        s['doses'] = [x for x in s['doses'] if not (admid is None or x['admid'] == admid)]
        d['doses'] = d['doses'] + moved
        # stored order as pharmpy keeps it
        sv = _view(s['stored'])
        d['stored'] = _view(d['stored']) + [x for x in sv if admid is None or x['admid'] == admid]
        s['stored'] = [x for x in sv if not (admid is None or x['admid'] == admid)]

    def set_dose(self, name, doses):
        self.comps[name]['doses'] = list(doses or ())
        self.comps[name]['stored'] = list(doses or ())

    def add_dose(self, name, dose):
        c = self.comps[name]
        c['doses'] = c['doses'] + [dose]
        c['stored'] = _view(c['stored']) + [dose]

    def remove_dose(self, name, admid=None):
        c = self.comps[name]
        c['doses'] = [x for x in c['doses'] if admid is not None and x['admid'] != admid]
        c['stored'] = [x for x in _view(c['stored']) if admid is not None and x['admid'] != admid]

    def set_lag_time(self, name, e):
        self.comps[name]['lag'] = e

    def set_bioavailability(self, name, e):
        self.comps[name]['F'] = e

    def set_input(self, name, e):
        self.comps[name]['input'] = e

    def renamed(self, sigma):
        r = RefSystem()
        for nm, c in self.comps.items():
            r.comps[nm] = dict(
                doses=[dose_rename(d, sigma) for d in c['doses']],
                stored=[dose_rename(d, sigma) for d in c['stored']],
                lag=ast_rename(c['lag'], sigma),
                F=ast_rename(c['F'], sigma),
                input=ast_rename(c['input'], sigma),
            )
        for k, e in self.edges.items():
            r.edges[k] = ast_rename(e, sigma)
        return r

    # -- queries -------------------------------------------------------------------------------
    @property
    def names(self):
        return list(self.comps)

    def rate(self, src, dst, env):
        e = self.edges.get((src, dst))
        return 0.0 if e is None else ast_eval(e, env)

    def dosed(self):
        return [nm for nm, c in self.comps.items() if c['doses']]

    def outputs(self):
        return [s for (s, d) in self.edges if d == OUT]

    def matrix(self, order, env):
        """compartmental matrix in the given name order: M[j][i] = rate(i->j) (i != j),
        M[i][i] = -(sum of all flows leaving i, including the one to the output)"""
        n = len(order)
        m = [[0.0] * n for _ in range(n)]
        for i, a in enumerate(order):
            tot = 0.0
            for j, b in enumerate(order):
                if i != j:
                    r = self.rate(a, b, env)
                    m[j][i] = r
                    tot += r
            tot += self.rate(a, OUT, env)
            m[i][i] = -tot
        return m

    def rhs(self, name, env):
        """net rate of change of the amount of compartment `name`: inflows - outflows + input"""
        v = ast_eval(self.comps[name]['input'], env)
        for (s, d), e in self.edges.items():
            r = ast_eval(e, env)
            if d == name:
                v += r * env[amount_key(s)]
            if s == name:
                v -= r * env[amount_key(s)]
        return v

    def symbols(self):
        out = set()
        for c in self.comps.values():
            for d in c['doses']:
                ast_syms(d['amount'], out)
                if d['par'] is not None:
                    ast_syms(d['par'], out)
            for k in ('lag', 'F', 'input'):
                ast_syms(c[k], out)
        for e in self.edges.values():
            ast_syms(e, out)
        return out

    def has_cycle(self):
        adj = {}
        for (s, d) in self.edges:
            if d != OUT:
                adj.setdefault(s, []).append(d)
        state = {}

        def visit(u):
            state[u] = 1
            for v in adj.get(u, ()):
                if state.get(v) == 1:
                    return True
                if v not in state and visit(v):
                    return True
            state[u] = 2
            return False

        return any(visit(u) for u in list(self.comps) if u not in state)

    def has_asymmetric_pair(self):
        for (s, d), e in self.edges.items():
            if d == OUT:
                continue
            back = self.edges.get((d, s))
            if back is None or back != e:
                return True
        return False

    def render(self):
        out = []
        for nm, c in self.comps.items():
            bits = [nm]
            if c['doses']:
                bits.append('doses=[' + ', '.join(dose_render(d) for d in c['doses']) + ']')
            if c['lag'] != ZERO:
                bits.append('lag=' + ast_render(c['lag']))
            if c['F'] != ONE:
                bits.append('F=' + ast_render(c['F']))
            if c['input'] != ZERO:
                bits.append('input=' + ast_render(c['input']))
            out.append(' '.join(bits))
        for (s, d), e in self.edges.items():
            out.append(f"{s} -> {'output' if d == OUT else d}: {ast_render(e)}")
        return out

    def canonical(self):
        """canonical text of the graph (for distinctness)"""
        comps = sorted(
            (nm, sorted(dose_render(d) for d in c['doses']), ast_render(c['lag']), ast_render(c['F']), ast_render(c['input']))
            for nm, c in self.comps.items()
        )
        edges = sorted((s, d, ast_render(e)) for (s, d), e in self.edges.items())
        return repr((comps, edges))
