"""Documented formulas of pharmpy's model-extending transformations (reference for C09).

Pure Python (math only; must NOT import pharmpy, sympy, numpy or pandas).  Every function is a
transcription of a sentence / formula / example of the *docstring* of the corresponding
pharmpy.modeling function (quoted beside it), never of its code.

Conventions: `P` is the value of the parameter before the extension, `f` the individual prediction
(value of the dependent variable with all epsilons zero), `eps` a list of epsilon values.
"""

from __future__ import annotations

import math

NAN = float('nan')

# ------------------------------------------------------------------------------------------------
# add_covariate_effect  (src/pharmpy/modeling/covariate_effect.py)

CONTINUOUS_EFFECTS = ('lin', 'piece_lin', 'exp', 'pow')
CATEGORICAL_EFFECTS = ('cat', 'cat2')

# number of thetas of each template (cat/cat2: one per additional category, see cat_effect)
N_THETAS = {'lin': 1, 'exp': 1, 'pow': 1, 'piece_lin': 2}


def cov_effect(effect: str, cov: float, thetas, median: float) -> float:
    """coveff of the templated continuous effects."""
    if effect == 'lin':
        # "Linear function for continuous covariates (*lin*) ... coveff = 1 + theta * (cov - median)"
        return 1.0 + thetas[0] * (cov - median)
    if effect == 'piece_lin':
        # "Piecewise linear function/"hockey-stick" ... If cov <= median: coveff = 1 + theta1 * (cov - median)
        #  If cov > median: coveff = 1 + theta2 * (cov - median)"
        if cov <= median:
            return 1.0 + thetas[0] * (cov - median)
        return 1.0 + thetas[1] * (cov - median)
    if effect == 'exp':
        # "Exponential function ... coveff = exp(theta * (cov - median))"
        return _exp(thetas[0] * (cov - median))
    if effect == 'pow':
        # "Power function ... coveff = (cov/median)^theta"
        return _pow(cov / median, thetas[0])
    raise KeyError(effect)


def cat_effect(effect: str, is_most_common: bool, theta: float) -> float:
    """coveff of the categorical templates for one category; `theta` is the theta of that category.

    cat : "If covariate is the most common category: coveff = 1
           For each additional category: coveff = 1 + theta"
    cat2: "If covariate is the most common category: coveff = 1
           For each additional category: coveff = theta"
    """
    if is_most_common:
        return 1.0
    if effect == 'cat':
        return 1.0 + theta
    if effect == 'cat2':
        return theta
    raise KeyError(effect)


def neutral_at_reference(effect: str, operation: str) -> bool:
    """Is the documented extension neutral (P' == P) at the reference covariate value?

    Every template evaluates to 1 at cov == median / most common category; 1 is the neutral element of
    '*' only ("P = P + coveff" gives P + 1), so neutrality is derived for '*' only."""
    return operation == '*' and effect in CONTINUOUS_EFFECTS + CATEGORICAL_EFFECTS


def apply_operation(P: float, operation: str, g: float) -> float:
    # "operation : Whether the covariate effect should be added or multiplied (default)."
    if operation == '*':
        return P * g
    if operation == '+':
        return P + g
    raise KeyError(operation)


# dataset statistics: the docstring says "median" (user guide: "the mean, median, and standard deviation
# as mean, median, and std") without pinning the rows; the documented candidates are all records, the
# baselines (first record of each individual) and "calculated first per individual, then for the group".


def _clean(xs):
    return [float(x) for x in xs if x == x]


def median(xs):
    xs = sorted(_clean(xs))
    n = len(xs)
    if n == 0:
        return NAN
    if n % 2:
        return xs[n // 2]
    return 0.5 * (xs[n // 2 - 1] + xs[n // 2])


def mean(xs):
    xs = _clean(xs)
    return math.fsum(xs) / len(xs) if xs else NAN


def std(xs):
    """sample standard deviation (n - 1)"""
    xs = _clean(xs)
    n = len(xs)
    if n < 2:
        return NAN
    m = math.fsum(xs) / n
    return math.sqrt(math.fsum((x - m) ** 2 for x in xs) / (n - 1))


def _groups(ids, xs):
    g = {}
    for i, x in zip(ids, xs):
        g.setdefault(i, []).append(x)
    return g


def stat_candidates(stat: str, ids, xs) -> dict:
    """name of candidate -> value of statistic `stat` in {'median','mean','std'}."""
    fn = {'median': median, 'mean': mean, 'std': std}[stat]
    g = _groups(ids, xs)
    per_id = {'median': median, 'mean': mean, 'std': mean}[stat]  # std: spread of the individual means
    out = {
        'all_records': fn(xs),
        'baselines': fn([v[0] for v in g.values()]),
        'per_individual_then_group': fn([per_id(v) for v in g.values()]),
    }
    return out


def most_common_candidates(ids, xs) -> dict:
    """"the most common category": by records or by individuals carrying the level; ties -> every tied
    level is a candidate.  name -> set of levels"""
    rec = {}
    for x in xs:
        if x == x:
            rec[x] = rec.get(x, 0) + 1
    ind = {}
    for v in _groups(ids, xs).values():
        for x in set(y for y in v if y == y):
            ind[x] = ind.get(x, 0) + 1

    def top(d):
        if not d:
            return set()
        m = max(d.values())
        return {k for k, c in d.items() if c == m}

    return {'by_records': top(rec), 'by_individuals': top(ind)}


# ------------------------------------------------------------------------------------------------
# add_iiv / add_pk_iiv  (src/pharmpy/modeling/parameter_variability.py)


def iiv(form: str, operation: str, P: float, eta: float) -> float:
    """"Assuming a statement CL = Theta, IIVs are added in the following ways" """
    if form == 'add':
        # "Additive: CL = Theta + eta"
        return P + eta
    if form == 'prop':
        # "Proportional: CL = Theta * (1 + eta)"
        return P * (1.0 + eta)
    if form == 'exp':
        # "Exponential: CL = Theta +/* e^eta"   (operation decides)
        return apply_operation(P, operation, _exp(eta))
    if form == 'log':
        # "Logit: CL = Theta * e^eta / (e^eta + 1)"
        return P * _exp(eta) / (_exp(eta) + 1.0)
    if form == 're_log':
        # "Rescaled logit: CL = e^(Phi*eta)/(1 + e^(Phi*eta)) with Phi = log(Theta/(1-Theta))"
        if not (0.0 < P < 1.0):
            return NAN
        phi = math.log(P / (1.0 - P))
        return _exp(phi * eta) / (1.0 + _exp(phi * eta))
    raise KeyError(form)


def iiv_neutral_at_zero(form: str, operation: str) -> bool:
    """Theta + 0, Theta*(1+0), Theta*e^0 are Theta; Theta + e^0, Theta/2 (logit) and 1/2 (rescaled logit)
    are not: neutrality is derived from the documented formula."""
    return form in ('add', 'prop') or (form == 'exp' and operation == '*')


# add_pk_iiv: "Will add exponential IIVs to all parameters that are included in the ODE." -> iiv('exp', '*')

# ------------------------------------------------------------------------------------------------
# transform_etas_*  (examples of the docstrings)


def boxcox(eta: float, lam: float) -> float:
    # example: "POP_CL*WGT*exp((exp(ETA_CL)**lambda1 - 1)/lambda1)"
    return (_pow(_exp(eta), lam) - 1.0) / lam


def tdist(eta: float, df: float) -> float:
    # example: "POP_CL*WGT*exp(ETA_CL*(1 + (ETA_CL**2 + 1)/(4*df1) + (5*ETA_CL**4 + 16*ETA_CL**2..."
    # (the docstring truncates the expression; the remaining terms are those of the expansion of the t
    # quantile in the normal quantile, Abramowitz & Stegun 26.7.5, which the quoted terms start)
    e2 = eta * eta
    return eta * (
        1.0
        + (e2 + 1.0) / (4.0 * df)
        + (5.0 * e2 * e2 + 16.0 * e2 + 3.0) / (96.0 * df**2)
        + (3.0 * e2**3 + 19.0 * e2 * e2 + 17.0 * e2 - 15.0) / (384.0 * df**3)
    )


def john_draper(eta: float, lam: float) -> float:
    # example: "POP_CL*WGT*exp(((Abs(ETA_CL) + 1)**lambda1 - 1)*sign(ETA_CL)/lambda1)"
    s = 0.0 if eta == 0 else math.copysign(1.0, eta)
    return s * (_pow(abs(eta) + 1.0, lam) - 1.0) / lam


ETA_TRANSFORMS = {'boxcox': boxcox, 'tdist': tdist, 'john_draper': john_draper}

# ------------------------------------------------------------------------------------------------
# add_allometry  (src/pharmpy/modeling/allometry.py)


def allometry(P: float, X: float, Z: float, T: float) -> float:
    # "The function will be P=P*(X/Z)**T where P is the parameter, X the allometric_variable, Z the
    #  reference_value and T is a theta."
    return P * _pow(X / Z, T)


# ------------------------------------------------------------------------------------------------
# error models  (src/pharmpy/modeling/error.py)


def additive_error(f: float, eps, log_trans: bool) -> float:
    # table: "y: f + eps_1"; "log(y): log(f) + eps_1/f"
    if log_trans:
        return _log(f) + eps[0] / f
    return f + eps[0]


def proportional_error(f: float, eps, log_trans: bool) -> float:
    # table: "y: f + f eps_1"; "log(y): log(f) + eps_1"
    if log_trans:
        return _log(f) + eps[0]
    return f + f * eps[0]


def combined_error(f: float, eps, log_trans: bool) -> float:
    # table: "y: f + f eps_1 + eps_2"; "log(y): log(f) + eps_1 + eps_2/f"
    if log_trans:
        return _log(f) + eps[0] + eps[1] / f
    return f + f * eps[0] + eps[1]


def error_coefficients(kind: str, f: float, log_trans: bool):
    """d y / d eps_k of the documented tables (multiset)"""
    if kind == 'additive':
        return [1.0 / f] if log_trans else [1.0]
    if kind == 'proportional':
        return [1.0] if log_trans else [f]
    if kind == 'combined':
        return [1.0, 1.0 / f] if log_trans else [f, 1.0]
    raise KeyError(kind)


def power_coefficient(f: float, theta: float) -> float:
    # set_power_on_ruv: "Applies a power effect to provided epsilons."; example "Y = EPS_1*F**power_1 + F"
    return _pow(f, theta)


# set_iiv_on_ruv: "Multiplies epsilons with exponential (new) etas."  -> eps_k := eps_k * exp(eta)
def iiv_on_ruv(eps: float, eta: float) -> float:
    return eps * _exp(eta)


# use_thetas_for_error_stdev: "Use thetas to estimate standard deviation of error" -> eps_k := theta_k * eps_k
# with var(eps_k) = 1 (theta_k is the standard deviation)
def theta_stdev(eps: float, theta: float) -> float:
    return theta * eps


# set_time_varying_error_model: "Set a time varying error model per time cutoff"; example
# "Y = EPS_1*F*time_varying + F for TIME < 1.0; EPS_1*F + F otherwise" -> eps_k := eps_k*theta before cutoff
def time_varying(eps: float, theta: float, idv: float, cutoff: float) -> float:
    return eps * theta if idv < cutoff else eps


# set_dtbs_error_model: "fix_to_log: Set to True to fix lambda and zeta to 0, i.e. emulating log-transformed
# data" -> at lambda = zeta = 0: y = log(f) + W*eps
def dtbs_log(f: float, w: float, eps: float) -> float:
    return _log(f) + w * eps


# ------------------------------------------------------------------------------------------------
# transform_blq  (src/pharmpy/modeling/blq.py)


def phi(x: float) -> float:
    return 0.5 * (1.0 + math.erf(x / math.sqrt(2.0)))


def blq_m3(f: float, sd: float, lloq: float) -> float:
    # "M3 method: Including the probability that the BLQ observations are below the LLOQ as part of the
    #  maximum likelihood estimation."  P(Y < LLOQ), Y ~ N(f, sd^2)
    return phi((lloq - f) / sd)


def blq_m4(f: float, sd: float, lloq: float) -> float:
    # "M4 method: Including the probability that the BLQ observations are below the LLOQ and positive";
    # example "Y = (CUMD - CUMDZ)/(1 - CUMDZ) otherwise"   P(Y < LLOQ | Y > 0)
    cumd = phi((lloq - f) / sd)
    cumdz = phi(-f / sd)
    if cumdz >= 1.0:
        return NAN  # P(Y > 0) underflows: undefined
    return (cumd - cumdz) / (1.0 - cumdz)


# ------------------------------------------------------------------------------------------------
# transit compartments / absorption  (src/pharmpy/modeling/odes.py; property C09: "transit and absorption
# setters keep the documented mean transit/absorption time")


def mean_transit_time(rates) -> float:
    """chain of first-order transit compartments with exit rates k_i: sum 1/k_i (= n/k, MDT)"""
    return math.fsum(1.0 / k for k in rates)


def first_order_mat(ka: float) -> float:
    """mean absorption time of first-order absorption with rate KA: MAT = 1/KA"""
    return 1.0 / ka


def zero_order_mat(duration: float) -> float:
    """mean absorption time of a zero-order input of duration D: MAT = D/2"""
    return duration / 2.0


# ------------------------------------------------------------------------------------------------


def _exp(x):
    try:
        return math.exp(x)
    except OverflowError:
        return math.inf


def _log(x):
    if x > 0:
        return math.log(x)
    if x == 0:
        return -math.inf
    return NAN


def _pow(b, x):
    try:
        if b == 0.0 and x < 0:
            return math.inf
        if b < 0 and x != int(x):
            return NAN
        return b**x
    except OverflowError:
        return math.inf
    except ZeroDivisionError:
        return math.inf
