"""Reference semantics for the model feature language (MFL) as plain sets.

This module must not import pharmpy.  Everything here is derived from the documentation
(docs/mfl.rst, docs/modelsearch.rst, docs/covsearch.rst, the header comment of
tools/mfl/grammar.py):

* a *space* is a dict  category -> frozenset(atoms); atoms are tuples
    ('ABSORPTION', mode) ('ELIMINATION', mode) ('LAGTIME', mode)
    ('TRANSITS', n, 'DEPOT'|'NODEPOT')   ('PERIPHERALS', n, 'DRUG'|'MET')
    ('COVARIATE', parameter, covariate, FP, op, optional)
    ('DIRECTEFFECT', mode) ('EFFECTCOMP', mode) ('INDIRECTEFFECT', mode, production)
    ('METABOLITE', mode)  ('ALLOMETRY', covariate, reference)
* `parse_mfl(text)` is a tiny hand written parser of the *string* (regex / bracket
  splitting); it knows nothing about lark or pharmpy's statement classes.
* union / difference / equality / inclusion are the plain set operations per category,
  followed by the documented defaulting rule (modelsearch.rst, table "DEFAULT"): a PK
  space that does not mention a PK category gets the default feature of that category.
"""

from __future__ import annotations

import itertools
import re

ABSORPTION = ('FO', 'ZO', 'SEQ-ZO-FO', 'INST')
ELIMINATION = ('FO', 'ZO', 'MM', 'MIX-FO-MM')
LAGTIME = ('ON', 'OFF')
DEPOT = ('DEPOT', 'NODEPOT')
PERIPHERAL_MODES = ('DRUG', 'MET')
PDTYPE = ('LINEAR', 'EMAX', 'SIGMOID')
PRODUCTION = ('PRODUCTION', 'DEGRADATION')
METABOLITE = ('PSC', 'BASIC')
FP_ALL = ('LIN', 'CAT', 'CAT2', 'PIECE_LIN', 'EXP', 'POW', 'CUSTOM')
# "e is an effect, a list of effects, or * for all continuous effects" (grammar.py, covsearch.rst)
FP_WILDCARD = ('LIN', 'PIECE_LIN', 'EXP', 'POW')

SIMPLE = {
    'ABSORPTION': ABSORPTION,
    'ELIMINATION': ELIMINATION,
    'LAGTIME': LAGTIME,
    'DIRECTEFFECT': PDTYPE,
    'EFFECTCOMP': PDTYPE,
    'METABOLITE': METABOLITE,
}
CATEGORIES = (
    'ABSORPTION', 'ELIMINATION', 'TRANSITS', 'PERIPHERALS', 'LAGTIME', 'COVARIATE',
    'DIRECTEFFECT', 'EFFECTCOMP', 'INDIRECTEFFECT', 'METABOLITE', 'ALLOMETRY',
)
PK_CATEGORIES = ('ABSORPTION', 'ELIMINATION', 'TRANSITS', 'PERIPHERALS', 'LAGTIME')
# categories whose presence marks the space as a PK space (ModelFeatures.create docstring/comment
# "Indicate that we have a PK model, need default features"; modelsearch.rst default table)
PK_TRIGGER = PK_CATEGORIES + ('METABOLITE',)
DEFAULTS = {
    'ABSORPTION': ('ABSORPTION', 'INST'),
    'ELIMINATION': ('ELIMINATION', 'FO'),
    'TRANSITS': ('TRANSITS', 0, 'DEPOT'),
    'PERIPHERALS': ('PERIPHERALS', 0, 'DRUG'),
    'LAGTIME': ('LAGTIME', 'OFF'),
}


class RefSyntaxError(Exception):
    pass


# ------------------------------------------------------------------------------------------
# parser


def _split_top(s: str, sep: str = ','):
    out, depth, cur = [], 0, ''
    for ch in s:
        if ch == '[':
            depth += 1
        elif ch == ']':
            depth -= 1
            if depth < 0:
                raise RefSyntaxError(s)
        if ch == sep and depth == 0:
            out.append(cur)
            cur = ''
        else:
            cur += ch
    if depth != 0:
        raise RefSyntaxError(s)
    out.append(cur)
    return out


_STMT = re.compile(r'^([A-Za-z]+)(\?)?\((.*)\)$')
_NUM = re.compile(r'^\d+$')
_RANGE = re.compile(r'^(\d+)\.\.(\d+)$')
_NAME = re.compile(r'^[A-Za-z0-9-]+$')
_VAR = re.compile(r'^[A-Za-z_]+$')


def _tokens(arg: str, universe=None, what=''):
    """token | [token, ...] -> list of upper-cased tokens (checked against universe)"""
    if arg.startswith('['):
        if not arg.endswith(']'):
            raise RefSyntaxError(arg)
        inner = arg[1:-1]
        items = [] if inner == '' else inner.split(',')
    else:
        items = [arg]
    out = []
    for it in items:
        if universe is None and not _NAME.match(it):
            raise RefSyntaxError(f'{what}: bad token {it!r}')
        u = it.upper()
        if universe is not None and u not in universe:
            raise RefSyntaxError(f'{what}: unknown {it!r}')
        out.append(u)
    return out


def _modes(arg: str, universe, what):
    if arg == '*':
        return list(universe)
    return _tokens(arg, universe, what)


def _counts(arg: str):
    m = _RANGE.match(arg)
    if m:
        a, b = int(m.group(1)), int(m.group(2))
        return list(range(a, b + 1))  # "endpoints are included" (mfl.rst)
    if arg.startswith('['):
        if not arg.endswith(']'):
            raise RefSyntaxError(arg)
        inner = arg[1:-1]
        items = [] if inner == '' else inner.split(',')
        for it in items:
            if not _NUM.match(it):
                raise RefSyntaxError(f'bad number {it!r}')
        return [int(it) for it in items]
    if _NUM.match(arg):
        return [int(arg)]
    raise RefSyntaxError(f'bad count {arg!r}')


def parse_statements(text: str):
    """-> list of raw statements (dicts); spaces are insignificant, ';' and newline separate."""
    stmts = []
    for part in re.split(r'[;\n]', text.replace(' ', '')):
        m = _STMT.match(part)
        if not m:
            raise RefSyntaxError(f'cannot parse statement {part!r}')
        name, opt, body = m.group(1).upper(), bool(m.group(2)), m.group(3)
        args = _split_top(body)
        if opt and name != 'COVARIATE':
            raise RefSyntaxError('? only for COVARIATE')
        if name == 'LET':
            if len(args) != 2 or not _VAR.match(args[0]):
                raise RefSyntaxError(part)
            stmts.append(dict(kind='LET', name=args[0], values=_tokens(args[1], None, 'LET')))
        elif name in SIMPLE:
            if len(args) != 1:
                raise RefSyntaxError(part)
            stmts.append(dict(kind=name, modes=_modes(args[0], SIMPLE[name], name), wildcard=args[0] == '*'))
        elif name == 'TRANSITS':
            if not 1 <= len(args) <= 2:
                raise RefSyntaxError(part)
            depot = _modes(args[1], DEPOT, name) if len(args) == 2 else ['DEPOT']  # default: keep depot
            stmts.append(dict(kind=name, counts=_counts(args[0]), depot=depot))
        elif name == 'PERIPHERALS':
            if not 1 <= len(args) <= 2:
                raise RefSyntaxError(part)
            modes = _modes(args[1], PERIPHERAL_MODES, name) if len(args) == 2 else ['DRUG']  # mfl.rst: drug is default
            stmts.append(dict(kind=name, counts=_counts(args[0]), modes=modes))
        elif name == 'INDIRECTEFFECT':
            if len(args) != 2:
                raise RefSyntaxError(part)
            stmts.append(dict(kind=name, modes=_modes(args[0], PDTYPE, name), production=_modes(args[1], PRODUCTION, name)))
        elif name == 'ALLOMETRY':
            if not 1 <= len(args) <= 2:
                raise RefSyntaxError(part)
            ref = float(args[1]) if len(args) == 2 else 70.0
            stmts.append(dict(kind=name, covariate=args[0], reference=ref, has_reference=len(args) == 2))
        elif name == 'COVARIATE':
            if not 3 <= len(args) <= 4:
                raise RefSyntaxError(part)

            def pc(a):
                if a == '*':
                    return ('wild', ['*'])
                if a.startswith('@'):
                    if not _VAR.match(a[1:]):
                        raise RefSyntaxError(a)
                    return ('ref', [a[1:]])
                return ('names', _tokens(a, None, 'COVARIATE'))

            fp_wild = args[2] == '*'
            fp = list(FP_WILDCARD) if fp_wild else _tokens(args[2], FP_ALL, 'fp')
            op = args[3] if len(args) == 4 else '*'
            if op not in ('*', '+'):
                raise RefSyntaxError(f'bad op {op!r}')
            stmts.append(dict(kind=name, parameter=pc(args[0]), covariate=pc(args[1]), fp=fp, fp_wild=fp_wild, op=op, optional=opt))
        else:
            raise RefSyntaxError(f'unknown feature {name}')
    return stmts


def documented_refusal(stmts):
    """Reasons for which the parser documents a ValueError (messages in validate_mfl_list):
    mandatory effect with '*' effects; the same (parameter, covariate) forced twice by explicit
    statements."""
    forced = set()
    for s in stmts:
        if s['kind'] != 'COVARIATE':
            continue
        if not s['optional'] and s['fp_wild']:
            return 'mandatory-wildcard-effect'
        if s['parameter'][0] == 'names' and s['covariate'][0] == 'names' and not s['optional']:
            pairs = set(itertools.product(s['parameter'][1], s['covariate'][1]))
            if pairs & forced:
                return 'forced-twice'
            forced |= pairs
    return None


def empty_space():
    return {c: frozenset() for c in CATEGORIES}


def expand(stmts, defaults=True):
    """statements -> space (LET definitions substituted regardless of position, the last
    definition of a name wins; undefined references and parameter/covariate wildcards stay
    symbolic as '@NAME' / '*')."""
    let = {}
    for s in stmts:
        if s['kind'] == 'LET':
            let[s['name']] = s['values']
    sp = {c: set() for c in CATEGORIES}
    for s in stmts:
        k = s['kind']
        if k == 'LET':
            continue
        if k in SIMPLE:
            sp[k] |= {(k, m) for m in s['modes']}
        elif k == 'TRANSITS':
            sp[k] |= {(k, n, d) for n in s['counts'] for d in s['depot']}
        elif k == 'PERIPHERALS':
            sp[k] |= {(k, n, m) for n in s['counts'] for m in s['modes']}
        elif k == 'INDIRECTEFFECT':
            sp[k] |= {(k, m, p) for m in s['modes'] for p in s['production']}
        elif k == 'ALLOMETRY':
            sp[k] = {(k, s['covariate'], s['reference'])}  # a single allometry: the last one
        elif k == 'COVARIATE':

            def res(x):
                typ, vals = x
                if typ == 'ref':
                    return list(let[vals[0]]) if vals[0] in let else ['@' + vals[0]]
                return vals

            sp[k] |= {
                (k, p, c, fp, s['op'], s['optional'])
                for p in res(s['parameter'])
                for c in res(s['covariate'])
                for fp in s['fp']
            }
    sp = {c: frozenset(v) for c, v in sp.items()}
    return apply_defaults(sp) if defaults else sp


def is_pk(sp):
    return any(sp[c] for c in PK_TRIGGER)


def apply_defaults(sp):
    if not is_pk(sp):
        return dict(sp)
    out = dict(sp)
    for c, atom in DEFAULTS.items():
        if not out[c]:
            out[c] = frozenset([atom])
    return out


def parse_mfl(text: str, defaults=True):
    return expand(parse_statements(text), defaults=defaults)


# ------------------------------------------------------------------------------------------
# algebra on spaces


def differing_categories(a, b, skip=('ALLOMETRY',)):
    return [c for c in CATEGORIES if c not in skip and a[c] != b[c]]


def drug_peripherals(sp):
    return frozenset(x for x in sp['PERIPHERALS'] if x[2] == 'DRUG')


def met_peripherals(sp):
    return frozenset(x for x in sp['PERIPHERALS'] if x[2] == 'MET')


def contains_modelsearch(a, b):
    """`a` contains `b` as far as the modelsearch categories are concerned (absorption,
    elimination, transits, lagtime, drug peripherals)."""
    return (
        b['ABSORPTION'] <= a['ABSORPTION']
        and b['ELIMINATION'] <= a['ELIMINATION']
        and b['TRANSITS'] <= a['TRANSITS']
        and b['LAGTIME'] <= a['LAGTIME']
        and drug_peripherals(b) <= drug_peripherals(a)
    )


def is_rectangular(atoms):
    """TRANSITS atoms form a full product counts x depots"""
    counts = {x[1] for x in atoms}
    depots = {x[2] for x in atoms}
    return len(atoms) == len(counts) * len(depots)


def disjoint_modelsearch_categories(a, b):
    """categories (modelsearch ones; peripherals split by kind) where a and b share no atom"""
    out = []
    for c in ('ABSORPTION', 'ELIMINATION', 'TRANSITS', 'LAGTIME'):
        if not (a[c] & b[c]):
            out.append(c)
    if drug_peripherals(b) and not (drug_peripherals(a) & drug_peripherals(b)):
        out.append('PERIPHERALS')  # (a target space without drug peripherals offers no transformation)
    return out


# ------------------------------------------------------------------------------------------
# feature keys (the naming of candidate transformations used by every search algorithm)


def func_keys(sp):
    """expected keys of ModelFeatures.convert_to_funcs() for a space without symbolic atoms"""
    keys = set()
    for c in ('ABSORPTION', 'ELIMINATION', 'LAGTIME', 'METABOLITE'):
        keys |= set(sp[c])
    keys |= set(sp['TRANSITS'])
    for _, n, m in sp['PERIPHERALS']:
        keys.add(('PERIPHERALS', n) if m == 'DRUG' else ('PERIPHERALS', n, 'METABOLITE'))
    for _, p, cv, fp, op, opt in sp['COVARIATE']:
        keys.add(('COVARIATE', p, cv, fp.lower(), op, 'ADD'))
        if opt:
            keys.add(('COVARIATE', p, cv, fp.lower(), op, 'REMOVE'))
    keys |= {('DIRECT', m) for _, m in sp['DIRECTEFFECT']}
    keys |= {('EFFECTCOMP', m) for _, m in sp['EFFECTCOMP']}
    keys |= {('INDIRECT', m, p) for _, m, p in sp['INDIRECTEFFECT']}
    return keys


def has_symbolic(sp):
    return any(p.startswith('@') or p == '*' or c.startswith('@') or c == '*' for _, p, c, *_ in sp['COVARIATE'])


def all_combinations(keys):
    """every way of choosing at most one feature per category (category = first element of
    the key: "Features of the same category are mutually exclusive", mfl.rst), at least one."""
    groups = {}
    for k in keys:
        groups.setdefault(k[0], []).append(k)
    out = []
    for choice in itertools.product(*[[None] + sorted(g, key=repr) for g in groups.values()]):
        c = frozenset(x for x in choice if x is not None)
        if c:
            out.append(c)
    return out


def n_combinations(keys):
    groups = {}
    for k in keys:
        groups[k[0]] = groups.get(k[0], 0) + 1
    n = 1
    for v in groups.values():
        n *= v + 1
    return n - 1


# ------------------------------------------------------------------------------------------
# stepwise rules (docs/modelsearch.rst, "Feature combination exclusions")

DOCUMENTED_EXCLUSIONS = (
    (('ABSORPTION', 'ZO'), ('TRANSITS',)),
    (('ABSORPTION', 'SEQ-ZO-FO'), ('TRANSITS',)),
    (('ABSORPTION', 'SEQ-ZO-FO'), ('LAGTIME', 'ON')),
    (('ABSORPTION', 'INST'), ('LAGTIME', 'ON')),
    (('ABSORPTION', 'INST'), ('TRANSITS',)),
    (('LAGTIME', 'ON'), ('TRANSITS',)),
)
# exclusion row present in the implementation without any explanation and not in the docs;
# tolerated (paths using it may or may not exist), never required
UNDOCUMENTED_EXCLUSIONS = ((('ABSORPTION', 'FO'), ('TRANSITS', 1, 'NODEPOT')),)
# stated by a comment in _is_allowed ("Equivalent to changing the absorption rate model to
# instantaneous absorption"): TRANSITS(0,NODEPOT) is never a step, at any depth -- mandatory
COMMENTED_NEVER = (('TRANSITS', 0, 'NODEPOT'),)


def _pair_excluded(f, g, table):
    for x, y in table:
        if (f[: len(x)] == x and g[: len(y)] == y) or (f[: len(y)] == y and g[: len(x)] == x):
            return True
    return False


def step_allowed(f, prev, keys, strict, never=True):
    """May feature f be added to a model that already got the features `prev` (a set)?

    documented: one feature per category on a path; peripheral compartments one at a time in
    increasing order starting with the smallest count of the space; exclusion table.
    strict=True additionally applies the undocumented exclusion row; never=False switches the
    commented TRANSITS(0,NODEPOT) rule off (used only for the position-independence clause)."""
    if f in prev:
        return False
    if f[0] == 'PERIPHERALS':
        ns = sorted(k[1] for k in keys if k[0] == 'PERIPHERALS')
        done = sorted(p[1] for p in prev if p[0] == 'PERIPHERALS')
        if not done:
            return f[1] == ns[0]
        i = ns.index(done[-1])
        return i + 1 < len(ns) and ns[i + 1] == f[1]
    if never and f in COMMENTED_NEVER:
        return False
    if any(p[0] == f[0] for p in prev):
        return False
    for p in prev:
        if _pair_excluded(f, p, DOCUMENTED_EXCLUSIONS):
            return False
        if strict and _pair_excluded(f, p, UNDOCUMENTED_EXCLUSIONS):
            return False
    return True


def stepwise_paths(keys, strict, cap=100000):
    """all root-to-node paths (tuples of keys) of the exhaustive stepwise tree"""
    keys = list(keys)
    out = []
    frontier = [()]
    while frontier:
        nxt = []
        for path in frontier:
            prev = set(path)
            for f in keys:
                if step_allowed(f, prev, keys, strict):
                    nxt.append(path + (f,))
        out.extend(nxt)
        if len(out) > cap:
            return None
        frontier = nxt
    return out


def reduced_nodes(keys, strict, cap=100000):
    """nodes (frozenset(previous features), new feature) of the reduced stepwise search: after
    each layer models with the same features are merged into one basis for the next layer."""
    keys = list(keys)
    out = []
    layer = {frozenset()}
    while layer:
        nxt = set()
        for s in layer:
            for f in keys:
                if step_allowed(f, s, keys, strict):
                    out.append((s, f))
                    nxt.add(s | {f})
        if len(out) > cap:
            return None
        layer = nxt
    return out


# ------------------------------------------------------------------------------------------
# finite set combinatorics


def bell(n: int) -> int:
    # Bell triangle
    row = [1]
    for _ in range(n):
        new = [row[-1]]
        for x in row:
            new.append(new[-1] + x)
        row = new
    return row[0]


def set_partitions(elements):
    """all partitions of a list of distinct elements, each as frozenset of frozensets
    (restricted growth strings)"""
    elements = list(elements)
    n = len(elements)
    out = []

    def rec(i, assign, nblocks):
        if i == n:
            blocks = [set() for _ in range(nblocks)]
            for e, b in zip(elements, assign):
                blocks[b].add(e)
            out.append(frozenset(frozenset(b) for b in blocks))
            return
        for b in range(nblocks + 1):
            rec(i + 1, assign + [b], max(nblocks, b + 1))

    rec(0, [], 0)
    return out


def powerset(elements, min_size=0, max_size=None):
    elements = list(elements)
    n = len(elements)
    if max_size is None:
        max_size = n
    out = []
    for mask in range(1 << n):
        s = [elements[i] for i in range(n) if mask >> i & 1]
        if min_size <= len(s) <= max_size:
            out.append(frozenset(s))
    return out
