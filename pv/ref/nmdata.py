"""E9 -- reference reader for NM-TRAN data files, written from the TEXT of /repo/docs/NONMEM.rst
(sections "NM-TRAN dataset parsing", "Comment lines (IGNORE=c)", "NULL items in datasets",
"IGNORE/ACCEPT") and, for the naming of columns, from the docstring of parse_column_info
("use the synonym when a synonym exists; anonymous DROP/SKIP columns are named _DROP1, ...").

No pharmpy import.  Three outcomes:

    value                     the documented rules determine the result
    DataError(reason)         the documented rules say NM-TRAN gives an ERROR
    Unspecified(why)          the text leaves the meaning open -> the caller must not assert

Every documented rule is a separate, named piece of code (the names are used in clause ids):

    R-comment-default   no IGNORE=c: lines matching ^# are removed
    R-comment-char      IGNORE=c, c != '@': lines matching ^c are removed
    R-comment-at        IGNORE=@: lines matching ^\\s*[a-zA-Z#] are removed
    R-blank-line        empty lines / lines of only spaces and TABs give an error (no BLANKOK)
    R-delim             delimiter is comma, space(s) or TAB
    R-comma-spaces      spaces before or after a comma are ignored
    R-tab-spaces        spaces after a TAB are ignored; spaces before a TAB give ERROR
    R-row-spaces        spaces in the beginning or end of a row are ignored
    R-comma-edge        comma at the beginning / end of a row inserts NULL before / after it
    R-null              '.', an item between two commas or between two TABs is NULL
    R-null-value        NULL -> 0 by default, NULL=c -> c ([0-9]; + or - mean 0)
    R-numeric           only the characters Ee+-0123456789 (and . Dd) are allowed in an item
    R-fortran           2-1 == 2e-1, 2+1 == 2e1, D/d as exponent letter, lone + or - == 0
    R-len24             an item can be at most 24 characters long
    R-dropped-any       DROPped columns may hold any characters of any length
    R-pad               rows shorter than $INPUT are padded with NULLs
    R-surplus           columns beyond $INPUT are considered DROPped
    R-filter-order      IGNOREs are performed one at a time in the order given; items are only
                        parsed when needed (numeric comparison) or after filtering
    R-filter-dropped    it is possible to IGNORE on a dropped column
    R-filter-text       .EQ. .NE. (== = /=) compare text
    R-filter-numeric    .EQN. .NEN. .LT. .LE. .GT. .GE. (< <= > >=) compare numbers; the item
                        is parsed first (error when it is not a number)
    R-missing           (pharmpy configuration, not NM-TRAN) the item -99 is read as NA; in numeric
                        comparisons it is judged only where "number -99" and "NA" give the same answer
    R-order             comment removal -> splitting -> IGNORE/ACCEPT -> dropping -> item errors
"""

from __future__ import annotations

import re

NULL = None  # marker of a NULL item after classification
MISSING_TOKEN = '-99'  # default of pharmpy.conf.missing_data_token (documented in pharmpy/__init__.py)


class DataError(Exception):
    def __init__(self, reason, detail=''):
        super().__init__(f'{reason}: {detail}')
        self.reason = reason
        self.detail = detail


class Unspecified(Exception):
    pass


# ----------------------------------------------------------------------------------------
# $INPUT

RESERVED = [
    'ID', 'L1', 'L2', 'DV', 'MDV', 'RAW_', 'MRG_', 'RPT_', 'TIME', 'DATE', 'DAT1', 'DAT2', 'DAT3',
    'EVID', 'AMT', 'RATE', 'SS', 'II', 'ADDL', 'CMT', 'PCMT', 'CALL', 'CONT',
]  # fmt: skip
SPECIAL_FORMAT = {'TIME', 'II', 'DATE', 'DAT1', 'DAT2', 'DAT3'}  # exempt from R-numeric: not modelled


def resolve_input(entries):
    """entries: list of (key, value|None) as written in $INPUT (KEY or KEY=VALUE).
    -> (colnames, drop, alias) where alias maps every name usable in a filter to the
    column name.  A=B with neither name reserved is an error."""
    names, drop, alias = [], [], {}
    anon = 0
    for key, value in entries:
        kd = key in ('DROP', 'SKIP')
        vd = value in ('DROP', 'SKIP')
        if value is None:
            if kd:
                anon += 1
                names.append(f'_DROP{anon}')
                drop.append(True)
            else:
                names.append(key)
                drop.append(False)
                alias[key] = key
        elif kd:
            names.append(value)
            drop.append(True)
            alias[value] = value
        elif vd:
            names.append(key)
            drop.append(True)
            alias[key] = key
        else:
            kr, vr = key in RESERVED, value in RESERVED
            if kr and vr:
                raise Unspecified('synonym between two reserved names')
            if kr:
                syn = value
            elif vr:
                syn = key
            else:
                raise DataError('bad-synonym', f'{key}={value}')
            names.append(syn)
            drop.append(False)
            alias[key] = syn
            alias[value] = syn
    for n in names:
        if n in SPECIAL_FORMAT:
            raise Unspecified(f'column {n} has its own item format')
    if len(set(names)) != len(names):
        raise Unspecified('duplicate column names')
    return names, drop, alias


# ----------------------------------------------------------------------------------------
# lines


def split_lines(text):
    if '\r' in text:
        raise Unspecified('carriage return')
    lines = text.split('\n')
    if lines and lines[-1] == '':
        lines.pop()  # the text ended with a newline: no further line
    return lines


def is_comment(line, ignore_char):
    if ignore_char is None:
        return line.startswith('#')  # R-comment-default
    if ignore_char == '@':  # R-comment-at
        k = 0
        while k < len(line) and line[k] in ' \t':
            k += 1
        if k < len(line) and line[k] == '@':
            raise Unspecified('line starting with @ under IGNORE=@ (not covered by the documented regex)')
        if k < len(line) and line[k] in '\x0b\x0c':
            raise Unspecified('exotic whitespace')
        return k < len(line) and (line[k] == '#' or ('a' <= line[k] <= 'z') or ('A' <= line[k] <= 'Z'))
    if len(ignore_char) != 1 or ignore_char.isspace():
        raise Unspecified('ignore character')
    return line.startswith(ignore_char)  # R-comment-char


def data_lines(text, ignore_char):
    out = []
    for ln in split_lines(text):
        if is_comment(ln, ignore_char):
            continue
        if ln.strip(' \t') == '':
            raise DataError('blank-line', repr(ln))  # R-blank-line
        out.append(ln)
    return out


# ----------------------------------------------------------------------------------------
# splitting a row (hand written scanner; delimiter kinds are tracked to recognise the NULL
# forms the text defines and to refuse judging the ones it does not)


def split_row(line):
    """-> list of raw item strings ('' for an empty item)."""
    return split_row_delims(line)[0]


def split_row_delims(line):
    """-> (items, delims): delims[i] is the kind of delimiter after items[i]: ',', 't' or ' '."""
    n = len(line)
    a, b = 0, n
    while a < b and line[a] == ' ':  # R-row-spaces
        a += 1
    while b > a and line[b - 1] == ' ':
        b -= 1
    # a space run directly before a TAB is an error wherever it is (R-tab-spaces)
    for k in range(1, n):
        if line[k] == '\t' and line[k - 1] == ' ':
            raise DataError('space-before-tab', repr(line))
    s = line[a:b]
    items = []
    delims = []  # delimiter kind following items[i]: ',', 't', ' '
    cur = ''
    i = 0
    while i < len(s):
        ch = s[i]
        if ch == ',' or ch == '\t':
            items.append(cur)
            delims.append(',' if ch == ',' else 't')
            cur = ''
            i += 1
            while i < len(s) and s[i] == ' ':  # spaces after comma / TAB are ignored
                i += 1
        elif ch == ' ':
            j = i
            while j < len(s) and s[j] == ' ':
                j += 1
            # j < len(s) always (trailing spaces were stripped)
            if s[j] == ',':
                i = j  # R-comma-spaces: spaces before a comma are ignored
            elif s[j] == '\t':
                raise DataError('space-before-tab', repr(line))
            else:
                items.append(cur)
                delims.append(' ')
                cur = ''
                i = j
        else:
            cur += ch
            i += 1
    items.append(cur)
    # which empty items does the text define?
    for k, it in enumerate(items):
        if it != '':
            continue
        left = delims[k - 1] if k > 0 else None
        right = delims[k] if k < len(delims) else None
        if left is None and right is None:
            raise Unspecified('empty row')
        if left is None:
            if right != ',':
                raise Unspecified('row starting with a TAB')
        elif right is None:
            pass  # trailing comma: NULL after it; trailing TAB: NULL or nothing -- same after padding
        elif left != right or left == ' ':
            raise Unspecified('empty item between a comma and a TAB')
    return items, delims


def scan(text, ignore_char):
    """-> list of item lists of the data rows (after comment removal)."""
    return [split_row(ln) for ln in data_lines(text, ignore_char)]


# ----------------------------------------------------------------------------------------
# items

_ALLOWED = set('Ee+-0123456789.Dd')
_NUM = re.compile(r'([+-]?)(\d+\.?\d*|\.\d+)(?:[EeDd]([+-]?\d+)|([+-]\d+))?\Z')


def is_null(item):
    return item == '' or item == '.'


def parse_number(item):
    """item is not NULL.  -> float | DataError | Unspecified"""
    if len(item) > 24:
        raise DataError('item-too-long', item)  # R-len24
    if item in ('+', '-'):
        return 0.0  # R-fortran
    bad = [c for c in item if c not in _ALLOWED]
    if bad:
        raise DataError('illegal-char', item)  # R-numeric
    m = _NUM.match(item)
    if not m:
        raise Unspecified(f'item {item!r} uses only numeric characters but is not a documented number form')
    sign, mant, e1, e2 = m.groups()
    exp = e1 if e1 is not None else e2
    txt = sign + mant + ('E' + exp if exp is not None else '')
    v = float(txt)
    if v in (float('inf'), float('-inf')):
        raise Unspecified('overflow')
    return v


def null_number(null):
    """value of the NULL option character (None: option absent)."""
    if null is None or null in ('+', '-'):
        return 0.0
    if len(null) == 1 and null in '0123456789':
        return float(null)
    raise Unspecified('NULL option character')


TEXT_OPS = {'.EQ.': 'eq', '==': 'eq', '=': 'eq', '.NE.': 'ne', '/=': 'ne'}
NUM_OPS = {
    '.EQN.': 'eq', '.NEN.': 'ne', '.LT.': 'lt', '<': 'lt', '.LE.': 'le', '<=': 'le',
    '.GT.': 'gt', '>': 'gt', '.GE.': 'ge', '>=': 'ge',
}  # fmt: skip
_PLAIN_NUMBER = re.compile(r'[+-]?(\d+\.?\d*|\.\d+)([Ee][+-]?\d+)?\Z')
_WORD = re.compile(r'[A-Za-z][A-Za-z0-9_]*\Z')


def _cmp(kind, a, b):
    return {'eq': a == b, 'ne': a != b, 'lt': a < b, 'le': a <= b, 'gt': a > b, 'ge': a >= b}[kind]


def filter_matches(flt, row, names, alias):
    """flt = (column name as written, operator spelling, value without quotes)."""
    col, op, value = flt
    if col not in alias:
        raise Unspecified('filter on unknown column')
    j = names.index(alias[col])
    if len(value) > 12 or value == '':
        raise Unspecified('comparison value longer than 12 characters')
    if j >= len(row) or is_null(row[j]):
        raise Unspecified('filter on a NULL item')
    item = row[j]
    if op in TEXT_OPS:  # R-filter-text
        if not (_WORD.match(value) or _PLAIN_NUMBER.match(value)):
            raise Unspecified('text comparison value form')
        return _cmp(TEXT_OPS[op], item, value)
    if op in NUM_OPS:  # R-filter-numeric
        if not _PLAIN_NUMBER.match(value):
            raise Unspecified('numeric comparison needs a number')
        if item == MISSING_TOKEN:
            # R-missing: pharmpy's documented configuration option missing_data_token ('-99':
            # "data token to be converted to or from NA when reading or writing data").  The
            # NM-TRAN text knows no such token (there -99 is a number).  Only comparisons on
            # which both readings agree are judged: the number -99 and NA (every comparison
            # with NA is false, "not equal" is true).
            as_number = _cmp(NUM_OPS[op], float(MISSING_TOKEN), float(value))
            as_na = NUM_OPS[op] == 'ne'
            if as_number != as_na:
                raise Unspecified('comparison of the missing data token on which number and NA reading differ')
            return as_na
        try:
            x = parse_number(item)
        except DataError as e:
            if e.reason == 'item-too-long':
                raise Unspecified('long item in a numeric comparison')
            raise DataError('filter-non-numeric', item)
        return _cmp(NUM_OPS[op], x, float(value))
    raise Unspecified('operator')


# ----------------------------------------------------------------------------------------
# the reader


def read(text, entries, ignore_char=None, null=None, ignore=(), accept=()):
    """-> (colnames, drop, rows) with rows = list of lists; non-dropped cells are floats,
    dropped cells the raw item text (None when padded)."""
    names, drop, alias = resolve_input(entries)
    ncols = len(names)
    nullv = null_number(null)
    rows = scan(text, ignore_char)  # R-order: comments, then splitting
    if not rows:
        raise Unspecified('no data rows')
    if ignore and accept:
        raise Unspecified('both IGNORE and ACCEPT')
    if accept:
        if len(accept) != 1:
            raise Unspecified('the text does not say how several ACCEPT conditions combine')
        rows = [r for r in rows if filter_matches(accept[0], r, names, alias)]
    for flt in ignore:  # R-filter-order: one at a time, in the order given
        rows = [r for r in rows if not filter_matches(flt, r, names, alias)]
    out = []
    for r in rows:
        rr = []
        for j in range(ncols):  # R-surplus: items beyond ncols are dropped
            item = r[j] if j < len(r) else ''  # R-pad
            if drop[j]:
                rr.append(r[j] if j < len(r) else None)  # R-dropped-any
            elif is_null(item):
                rr.append(nullv)  # R-null, R-null-value
            elif item == MISSING_TOKEN:
                rr.append(float('nan'))  # R-missing: converted to NA when reading
            else:
                rr.append(parse_number(item))
        out.append(rr)
    return names, drop, out


def remove_individuals_without_observations(names, drop, rows):
    """$PK models (code comment in parse_dataset: 'Remove individuals without observations').
    Observation records: MDV == 0 when there is an MDV column, else EVID == 0, else AMT == 0."""
    live = [n for n, d in zip(names, drop) if not d]
    for marker in ('MDV', 'EVID', 'AMT'):
        if marker in live:
            break
    else:
        raise Unspecified('no MDV/EVID/AMT column')
    if 'ID' not in live:
        raise Unspecified('no ID column')
    jm, ji = names.index(marker), names.index('ID')
    have = {r[ji] for r in rows if r[jm] == 0.0}
    return [r for r in rows if r[ji] in have]
