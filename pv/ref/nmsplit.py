"""Byte-exact reference splitter of NM-TRAN control streams (no pharmpy import).

Used by C03: the frame condition ("records unrelated to an edit are unchanged") needs a
splitter that is independent of the parser under test and loses no byte (pv.ref.nmtran.
split_records normalises CR LF, fine for meaning, not for text identity).

* split_exact(text)         -> [Rec(kind, raw, text)], ''.join(r.text) == text
* code_units(chunk)         -> units of a code record (head, stmt, comment, verbatim, blank)
* value_tokens(chunk)       -> value/keyword tokens and comments of a parameter record
* theta_items(chunk)        -> items of a $THETA record with their token spans and multiplicity
"""

from __future__ import annotations

import re
from collections import namedtuple

from .nmtran import canonical_record_name

Rec = namedtuple('Rec', 'kind raw text')

BLANKS = ' \t'
CODE_KINDS = ('PRED', 'PK', 'ERROR', 'DES', 'AES', 'AESINITIAL', 'INFN', 'MIX')


def split_lines(text: str):
    """lines with their terminator kept ('\\n' terminates a line, a lone '\\r' does not)"""
    out = []
    pos = 0
    while pos < len(text):
        i = text.find('\n', pos)
        if i < 0:
            out.append(text[pos:])
            break
        out.append(text[pos : i + 1])
        pos = i + 1
    return out


def record_start(line: str):
    """-> raw record name (letters after '$') when the line opens a record, else None.
    A record opens where '$' is the first non-blank character of a line."""
    s = line.lstrip(BLANKS)
    if not s.startswith('$'):
        return None
    m = re.match(r'\$([A-Za-z]*)', s)
    return m.group(1)


def split_exact(text: str):
    """Text before the first record is returned as Rec(None, '', text)."""
    recs = []
    kind, raw, cur = None, '', []
    started = False
    for ln in split_lines(text):
        nm = record_start(ln)
        if nm is not None:
            if started or cur:
                recs.append(Rec(kind, raw, ''.join(cur)))
            started = True
            kind = canonical_record_name(nm) if nm else '$'
            raw = nm
            cur = [ln]
        else:
            cur.append(ln)
    if started or cur:
        recs.append(Rec(kind, raw, ''.join(cur)))
    return recs


def comment_split(line: str):
    """-> (code part, comment or None); the terminator stays with the code part's caller.
    A verbatim line (first non-blank is '"') has no comment."""
    body = line.rstrip('\n').rstrip('\r') if line.endswith('\n') else line
    if body.lstrip(BLANKS + '\x00').startswith('"'):
        return body, None
    i = body.find(';')
    if i < 0:
        return body, None
    return body[:i], body[i:]


def comments_of(chunk: str):
    out = []
    for ln in split_lines(chunk):
        _, c = comment_split(ln)
        if c is not None:
            out.append(c)
    return out


# ---------------------------------------------------------------------------------------
# code records

Unit = namedtuple('Unit', 'type text code comments')

_IF_THEN = re.compile(r'^IF\(.*\)THEN$')
_DO = re.compile(r'^DO(WHILE)?\(.*\)$')


def _norm(code: str):
    return re.sub(r'[ \t\x00\r\n&]+', '', code).upper()


def code_units(chunk: str):
    """Top-level units of a code record, in order; ''.join(u.text) == chunk.

    head      the line carrying the record name
    blank     empty line
    comment   line holding only a comment (outside any IF/DO block)
    verbatim  line whose first non-blank character is '"' (outside any block)
    stmt      one statement: a line with its continuation lines, or a whole IF...ENDIF /
              DO WHILE...ENDDO block including everything inside it
    """
    lines = split_lines(chunk)
    units = []
    i = 0
    n = len(lines)
    if n:
        code, com = comment_split(lines[0])
        units.append(Unit('head', lines[0], _norm(code), [com] if com is not None else []))
        i = 1
    while i < n:
        ln = lines[i]
        code, com = comment_split(ln)
        stripped = code.strip(BLANKS + '\x00\r')
        if stripped.startswith('"'):
            units.append(Unit('verbatim', ln, ln.rstrip('\r\n'), []))
            i += 1
            continue
        if stripped == '':
            if com is None:
                units.append(Unit('blank', ln, '', []))
            else:
                units.append(Unit('comment', ln, '', [com]))
            i += 1
            continue
        # a statement: gather continuation lines and, for block openers, the whole block
        text = []
        codes = []
        coms = []
        depth = 0
        while i < n:
            logical = ''
            while True:  # one logical line
                code, com = comment_split(lines[i])
                text.append(lines[i])
                if com is not None:
                    coms.append(com)
                c = code.rstrip(BLANKS + '\x00\r')
                i += 1
                if c.endswith('&') and i < n:
                    logical += c[:-1]
                    continue
                logical += c
                break
            key = _norm(logical)
            if not key.startswith('"'):
                codes.append(key)
                if _IF_THEN.match(key) or _DO.match(key):
                    depth += 1
                elif key in ('ENDIF', 'ENDDO'):
                    depth -= 1
            if depth <= 0:
                break
        units.append(Unit('stmt', ''.join(text), '\n'.join(codes), coms))
    return units


# ---------------------------------------------------------------------------------------
# parameter records

_NUMTOK = r'[-+]?(?:\d+\.?\d*|\.\d+)(?:[EeDd][-+]?\d+)?'
_TOK = re.compile(r'\(|\)|,|' + _NUMTOK + r'|[-+]?INF\b|[A-Za-z_][A-Za-z_0-9]*|=|\S', re.I)


def value_tokens(chunk: str, skip_name=True):
    """-> (tokens outside comments, comments).  The record name itself is skipped."""
    toks = []
    coms = []
    first = True
    for ln in split_lines(chunk):
        code, com = comment_split(ln)
        if com is not None:
            coms.append(com)
        code = code.replace('\x00', ' ')
        if first and skip_name:
            first = False
            m = re.match(r'[ \t]*\$[A-Za-z]*', code)
            if m:
                code = code[m.end() :]
        toks += _TOK.findall(code)
    return toks, coms


def is_number(tok: str):
    return re.fullmatch(_NUMTOK, tok) is not None or re.fullmatch(r'[-+]?INF', tok, re.I) is not None


ThetaItem = namedtuple('ThetaItem', 'start end count')


def theta_items(tokens):
    """items of a $THETA record over its token list: [ThetaItem(start, end, count)], token
    spans [start, end); options such as NUMBERPOINTS=n are skipped.  Returns None when the
    layout is outside what this reference understands."""
    items = []
    i = 0
    n = len(tokens)
    fix = re.compile(r'FIX(ED|E)?$', re.I)
    while i < n:
        t = tokens[i]
        if t == '(':
            try:
                j = tokens.index(')', i)
            except ValueError:
                return None
            end = j + 1
            count = 1
            if end < n and re.fullmatch(r'[xX]\d*', tokens[end]):
                if len(tokens[end]) > 1:
                    count = int(tokens[end][1:])
                    end += 1
                elif end + 1 < n and tokens[end + 1].isdigit():
                    count = int(tokens[end + 1])
                    end += 2
                else:
                    return None
            while end < n and fix.match(tokens[end]):
                end += 1
            items.append(ThetaItem(i, end, count))
            i = end
        elif is_number(t):
            end = i + 1
            while end < n and fix.match(tokens[end]):
                end += 1
            items.append(ThetaItem(i, end, 1))
            i = end
        elif t == ',':
            i += 1
        elif re.fullmatch(r'[A-Za-z_]\w*', t) and not fix.match(t):
            # option [= value]
            i += 1
            if i < n and tokens[i] == '=':
                i += 2
        else:
            return None
    return items
