"""Generator of event tables for C14 (and interpretation of its JSON specs).

`TABLE` is the Hypothesis strategy; `build(spec)` interprets a spec *totally* (every
shrunk / mutated spec is a valid table) and returns a plain `Table`.  No pharmpy import.

Spec (all ints are reduced modulo the number of options):

    kind     0 iv (dose into CENTRAL=1), 1 oral (DEPOT=1, CENTRAL=2), 2 ivoral (route 0 -> DEPOT,
             admid 1; route 1 -> CENTRAL=2, admid 2)
    cols     which optional columns exist: mdv evid cmt admid rate ss addl dvid
    ncov     number of covariate columns (WGT, AGE), tv[k] = covariate k may vary with time
    idname   name of the id column: 'ID' unless idname % 8 == 7 ('SUBJ')
    idmode   0,1 ids 1..n; 2 increasing with gaps; 3 decreasing (non-sorted but grouped)
    intcols  integer dtype for the flag-like columns (MDV EVID CMT ADMID SS ADDL DVID)
    restart  TIME restarts at reset events (EVID 3/4) instead of running on
    dropped  which of the existing optional columns (keys of DROPPABLE) are marked drop=True in the
             datainfo ("barred from being used"): the column stays in the dataset, but meta describes the
             table as if it were absent; dropvia: True = through drop_columns(model, names, mark=True),
             False = ColumnInfo(drop=True) (interpreted by the check module); absent = nothing dropped
    inds     1-6 individuals: gap, t0, c0, recs = 1-12 records
    rec      dt (time increment index, 0 = tie with previous record), k (0 observation, 1 dose,
             2 other event EVID=2, 3 reset EVID=3, 4 reset+dose EVID=4, 5 missing observation
             MDV=1), amt (1-5: 10..50; 6-10: 0.5, 2.5, 0.25, 0.75, 1.5), dv, route, addl, ii, ss, rate, cov, dvid,
             na (bit mask of missing values (NaN) in this record: 1 first covariate, 2 second covariate,
             4 DV of a dose record; absent = 0 = nothing missing)
"""

from __future__ import annotations

from hypothesis import strategies as st

DT = [0.0, 0.5, 1.0, 2.0, 4.0, 12.0]
IIS = [12.0, 6.0, 24.0, 2.0, 4.0]
OPTIONAL = ['mdv', 'evid', 'cmt', 'admid', 'rate', 'ss', 'addl', 'dvid']
KINDS = ['iv', 'oral', 'ivoral']
MODELINFO = {
    'iv': dict(dosing=[dict(cmt=1, admid=1)], central=1),
    'oral': dict(dosing=[dict(cmt=1, admid=1)], central=2),
    'ivoral': dict(dosing=[dict(cmt=1, admid=1), dict(cmt=2, admid=2)], central=2),
}
COVS = ['WGT', 'AGE']
NAN = float('nan')
FRACTIONAL = [0.5, 2.5, 0.25, 0.75, 1.5]
DROPPABLE = {'mdv': 'MDV', 'evid': 'EVID', 'cmt': 'CMT', 'admid': 'ADMID', 'rate': 'RATE', 'ss': 'SS', 'addl': 'ADDL', 'ii': 'II', 'dvid': 'DVID', 'cov0': 'WGT', 'cov1': 'AGE'}

REC = st.fixed_dictionaries(
    dict(
        dt=st.sampled_from([0, 0, 0, 1, 2, 2, 3, 4, 5]),
        k=st.sampled_from([0, 0, 0, 0, 0, 1, 1, 1, 1, 1, 2, 3, 4, 4, 5]),
        amt=st.integers(1, 10),
        dv=st.integers(0, 9),
        route=st.integers(0, 1),
        addl=st.sampled_from([0, 0, 0, 1, 2, 3]),
        ii=st.integers(0, 4),
        ss=st.sampled_from([0, 0, 0, 0, 1, 2]),
        rate=st.integers(0, 2),
        cov=st.integers(0, 3),
        dvid=st.integers(0, 1),
        na=st.sampled_from([0, 0, 0, 0, 0, 0, 0, 0, 1, 2, 3, 4, 5]),
    )
)
IND = st.fixed_dictionaries(
    dict(gap=st.integers(0, 3), t0=st.integers(0, 2), c0=st.integers(0, 5), recs=st.one_of(st.lists(REC, min_size=1, max_size=12), st.lists(REC, min_size=3, max_size=12), st.lists(REC, min_size=3, max_size=12)))
)
TABLE = st.fixed_dictionaries(
    dict(
        kind=st.sampled_from([0, 0, 1, 2, 2]),
        cols=st.fixed_dictionaries({c: st.booleans() for c in OPTIONAL}),
        ncov=st.sampled_from([0, 1, 1, 2, 2]),
        tv=st.lists(st.booleans(), min_size=2, max_size=2),
        idname=st.integers(0, 7),
        idmode=st.sampled_from([0, 0, 1, 2, 2, 3]),
        intcols=st.booleans(),
        restart=st.sampled_from([False, False, False, True]),
        inds=st.lists(IND, min_size=1, max_size=6),
        # columns marked as dropped in the datainfo (two thirds of the tables: none)
        dropped=st.one_of(st.just({}), st.just({}), st.fixed_dictionaries({c: st.sampled_from([False, False, True]) for c in DROPPABLE})),
        dropvia=st.booleans(),
    )
)


class Table:
    """records (list of dict), meta (roles, see pv.ref.eventwalk), types (column -> pharmpy
    column type), kind ('iv' | 'oral' | 'ivoral'), flags"""

    def __init__(self, records, meta, types, kind, flags, dropped=(), dropvia=False):
        self.dropped = list(dropped)
        self.dropvia = dropvia
        self.records = records
        self.meta = meta
        self.types = types
        self.kind = kind
        self.flags = flags

    @property
    def columns(self):
        return self.meta['columns']

    def render(self):
        cols = self.columns
        lines = [' '.join(cols) + f'   [{self.kind}' + ''.join(f' {k}' for k, v in sorted(self.flags.items()) if v) + ''.join(f' dropped:{c}' for c in self.dropped) + ']']
        for r in self.records:
            lines.append(' '.join(_fmt(r[c]) for c in cols))
        return lines


def _fmt(v):
    if isinstance(v, float) and v != v:
        return 'nan'
    if isinstance(v, float) and v == int(v):
        return str(int(v)) + '.'
    return str(v)


def _get(d, k, default=0):
    v = d.get(k, default) if isinstance(d, dict) else default
    return default if v is None else v


def _int(v):
    try:
        return int(v)
    except (TypeError, ValueError):
        return 0


def build(spec) -> Table:
    kind = KINDS[_int(_get(spec, 'kind')) % 3]
    cols = _get(spec, 'cols', {})
    has = {c: bool(_get(cols, c, False)) for c in OPTIONAL}
    ncov = _int(_get(spec, 'ncov')) % 3
    tv = list(_get(spec, 'tv', [])) + [False, False]
    idname = 'SUBJ' if _int(_get(spec, 'idname')) % 8 == 7 else 'ID'
    idmode = _int(_get(spec, 'idmode')) % 4
    intcols = bool(_get(spec, 'intcols', False))
    dspec = _get(spec, 'dropped', {})
    drop = {k: bool(_get(dspec, k, False)) for k in DROPPABLE}
    # a clock restart needs an active event column (TIME must not decrease without a reset event)
    restart = bool(_get(spec, 'restart', False)) and not drop['evid']
    inds = list(_get(spec, 'inds', []))[:6] or [dict(recs=[{}])]
    has_ii = has['ss'] or has['addl']
    info = MODELINFO[kind]
    central = info['central']

    # ids
    ids = []
    cur = 0
    for ind in inds:
        cur += 1 + (_int(_get(ind, 'gap')) % 4 if idmode >= 2 else 0)
        ids.append(cur)
    if idmode == 3:
        ids = ids[::-1]

    columns = [idname, 'TIME', 'AMT']
    types = {idname: 'id', 'TIME': 'idv', 'AMT': 'dose'}
    for c, name, typ in (('rate', 'RATE', 'rate'), ('ss', 'SS', 'ss')):
        if has[c]:
            columns.append(name)
            types[name] = typ
    if has_ii:
        columns.append('II')
        types['II'] = 'ii'
    if has['addl']:
        columns.append('ADDL')
        types['ADDL'] = 'additional'
    columns.append('DV')
    types['DV'] = 'dv'
    for c, name, typ in (('mdv', 'MDV', 'mdv'), ('evid', 'EVID', 'event'), ('cmt', 'CMT', 'compartment'), ('admid', 'ADMID', 'admid'), ('dvid', 'DVID', 'dvid')):
        if has[c]:
            columns.append(name)
            types[name] = typ
    covs = COVS[:ncov]
    for c in covs:
        columns.append(c)
        types[c] = 'covariate'
    columns.append('ROW')
    types['ROW'] = 'unknown'

    def flag(v):
        return int(v) if intcols else float(v)

    records = []
    for ident, ind in zip(ids, inds):
        recs = list(_get(ind, 'recs', []))[:12] or [{}]
        t = float(_int(_get(ind, 't0')) % 3)
        c0 = _int(_get(ind, 'c0')) % 6
        for r in recs:
            k = _int(_get(r, 'k')) % 6
            # effective record kind given the available columns
            if k == 2 and not has['evid']:
                k = 5
            if k == 3 and not has['evid']:
                k = 0
            if k == 4 and not has['evid']:
                k = 1
            if k == 5 and not has['mdv']:
                k = 0
            step = DT[_int(_get(r, 'dt')) % len(DT)]
            if restart and k in (3, 4):
                t = step
            else:
                t = t + step
            dose = k in (1, 4)
            route = _int(_get(r, 'route')) % 2 if kind == 'ivoral' else 0
            d = info['dosing'][route]
            a = _int(_get(r, 'amt', 1))
            if a <= 5:
                amt = float(10 * (1 + (a - 1) % 5)) if dose else 0.0
            else:  # fractional amounts, some of them strictly between 0 and 1
                amt = FRACTIONAL[(a - 6) % len(FRACTIONAL)] if dose else 0.0
            rec = {idname: ident, 'TIME': t, 'AMT': amt}
            if has['rate']:
                rec['RATE'] = [0.0, 0.0, amt / 2][_int(_get(r, 'rate')) % 3] if dose else 0.0
            ss = (_int(_get(r, 'ss')) % 3) if (dose and has['ss']) else 0
            addl = (_int(_get(r, 'addl')) % 4) if (dose and has['addl']) else 0
            if has['ss']:
                rec['SS'] = flag(ss)
            if has_ii:
                rec['II'] = IIS[_int(_get(r, 'ii')) % len(IIS)] if (ss > 0 or addl > 0) else 0.0
            if has['addl']:
                rec['ADDL'] = flag(addl)
            na = _int(_get(r, 'na')) % 8
            # DV may be missing on dose records only (never an observation, whatever columns are active)
            rec['DV'] = 0.5 * (_int(_get(r, 'dv')) % 10) if k == 0 else (NAN if (na & 4 and dose) else 0.0)
            if has['mdv']:
                rec['MDV'] = flag(0 if k == 0 else 1)
            if has['evid']:
                rec['EVID'] = flag({0: 0, 1: 1, 2: 2, 3: 3, 4: 4, 5: 0}[k])
            if has['cmt']:
                rec['CMT'] = flag(d['cmt'] if dose else central)
            if has['admid']:
                rec['ADMID'] = flag(d['admid'])
            if has['dvid']:
                rec['DVID'] = flag(1 + _int(_get(r, 'dvid')) % 2)
            for j, c in enumerate(covs):
                base = 50.0 + 5.0 * ((c0 + j) % 6)
                rec[c] = NAN if na & (1 << j) else base + (float(_int(_get(r, 'cov')) % 4) if tv[j] else 0.0)
            rec['ROW'] = float(len(records))
            records.append(rec)

    dropped = [c for k, c in DROPPABLE.items() if drop[k] and c in columns]

    def active(c):
        return c if c not in dropped else None

    covs_all = covs
    covs = [c for c in covs if c not in dropped]
    meta = dict(
        columns=columns,
        id=idname,
        idv='TIME',
        dv='DV',
        dose='AMT',
        mdv=active('MDV') if has['mdv'] else None,
        event=active('EVID') if has['evid'] else None,
        ss=active('SS') if has['ss'] else None,
        ii=active('II') if has_ii else None,
        addl=active('ADDL') if has['addl'] else None,
        cmt=active('CMT') if has['cmt'] else None,
        admid=active('ADMID') if has['admid'] else None,
        covariates=covs,
        model=info,
    )
    flags = dict(
        intcols=intcols,
        restart=restart,
        ids_with_gaps=idmode == 2,
        ids_unsorted=idmode == 3 and len(ids) > 1,
        id_not_named_ID=idname != 'ID',
    )
    meta['all_covariates'] = covs_all
    return Table(records, meta, types, kind, flags, dropped=dropped, dropvia=bool(_get(spec, 'dropvia', False)))
