"""Generator of NM-TRAN control streams: JSON spec -> resolved AST -> text, plus direct
evaluation of the resolved AST (self-check partner of the reference parser).  No pharmpy import.

Resolved statement forms (same shape as pv.ref.nmtran.parse_code output):
    ('asg', lhs, expr) | ('if', [(cond, [stmts]), ...], else_stmts|None)
Resolved expression forms: ('num', float, spelling) ('var', NAME) ('idx', 'THETA'|'ETA'|'EPS'|'A', (n,))
    ('neg', e) ('bin', op, a, b) ('call', FN, (args))   conditions: ('rel', op, a, b, spelling) ('and'|'or', a, b) ('not', a)
"""

from __future__ import annotations

from hypothesis import strategies as st

from ..ref import nmtran as R

USERVARS = ['TVCL', 'TVV', 'X1', 'X2', 'W', 'Z', 'TMP', 'IPRED']
COVS = ['WGT', 'AGE', 'SEX']
FUNCS = ['EXP', 'LOG', 'SQRT', 'ABS', 'INT', 'LOG10', 'SIN', 'COS', 'ATAN', 'PEXP', 'PLOG', 'PSQRT', 'PLOG10', 'PDZ', 'PZR', 'PNP', 'PHE', 'PNG', 'PHI', 'GAMLN', 'TAN', 'ASIN', 'ACOS', 'DEXP', 'DLOG', 'ALOG', 'DSQRT', 'DABS', 'DINT']
FUNCS2 = ['MOD']
NUMS = [(1.0, '1'), (2.0, '2'), (2.0, '2.'), (0.5, '.5'), (0.5, '0.5'), (1.5, '1.5E0'), (0.001, '1.0E-3'), (10.0, '1D1'), (20.0, '2d+1'), (3.0, '3.0'), (0.25, '2.5E-1'), (100.0, '100'), (7.0, '7'), (1.0, '1.0D0')]
RELOPS = [('==', '.EQ.'), ('==', '=='), ('/=', '.NE.'), ('/=', '/='), ('<', '.LT.'), ('<', '<'), ('<=', '.LE.'), ('<=', '<='), ('>', '.GT.'), ('>', '>'), ('>=', '.GE.'), ('>=', '>=')]
BINOPS = ['+', '-', '*', '/', '**']

# -----------------------------------------------------------------------------------------
# hypothesis strategies (unresolved JSON)


def _l(x):
    if isinstance(x, tuple):
        return [_l(y) for y in x]
    if isinstance(x, list):
        return [_l(y) for y in x]
    return x


def expr_strategy(depth=2):
    leaf = st.one_of(
        st.tuples(st.just('v'), st.integers(0, 30)),
        st.tuples(st.just('th'), st.integers(0, 30)),
        st.tuples(st.just('eta'), st.integers(0, 30)),
        st.tuples(st.just('col'), st.integers(0, 30)),
        st.tuples(st.just('n'), st.integers(0, len(NUMS) - 1)),
    )
    if depth == 0:
        return leaf
    sub = expr_strategy(depth - 1)
    return st.one_of(
        leaf,
        st.tuples(st.just('bin'), st.integers(0, 4), sub, sub),
        st.tuples(st.just('bin'), st.integers(0, 3), sub, sub),
        st.tuples(st.just('neg'), sub),
        st.tuples(st.just('call'), st.integers(0, len(FUNCS) - 1), sub),
        st.tuples(st.just('mod'), sub, sub),
    )


def cond_strategy(depth=1):
    rel = st.tuples(st.just('rel'), st.integers(0, len(RELOPS) - 1), expr_strategy(1), expr_strategy(1))
    if depth == 0:
        return rel
    sub = cond_strategy(depth - 1)
    return st.one_of(rel, rel, st.tuples(st.sampled_from(['and', 'or']), sub, sub), st.tuples(st.just('not'), sub))


def stmt_strategy(depth=2):
    asg = st.tuples(st.just('a'), st.integers(0, 20), expr_strategy(2))
    lif = st.tuples(st.just('l'), cond_strategy(2), st.integers(0, 20), expr_strategy(1))
    if depth == 0:
        return st.one_of(asg, asg, lif)
    sub = st.lists(stmt_strategy(depth - 1), min_size=1, max_size=3)
    blk = st.tuples(
        st.just('b'),
        st.lists(st.tuples(cond_strategy(2), sub), min_size=1, max_size=3),
        st.one_of(st.none(), sub),
    )
    return st.one_of(asg, asg, asg, lif, blk)


def code_strategy(max_size=8):
    return st.lists(stmt_strategy(2), min_size=0, max_size=max_size).map(_l)


_KNOWN_SHAPE_FLAGS = [
    'nested_if', 'inblock_reassign', 'mod', 'pfunc_in_cond', 'block_cond_dep', 'inblock_dep',
    'error_reassigns_pk_var', 'omega_values', 'neg_literal_pow', 'nested_pfunc', 'rel_shared_symbol',
]


def _features(flag):
    return st.fixed_dictionaries(dict({fl: flag for fl in _KNOWN_SHAPE_FLAGS}, protected_edges=st.booleans(), unprotected_trig=st.booleans()))


# The switchable shapes are the ones violations are attributed to (pv.checks.c01.run_case): a violation that
# disappears when a shape is switched off counts as that shape's (known) defect. So that an unrelated defect
# cannot hide behind them, most programs carry few of these shapes (about one in five carries none at all,
# where no attribution is possible); the rest mixes them freely to keep their interactions covered.
FEATURES = st.one_of(_features(st.sampled_from([False] * 7 + [True])), _features(st.sampled_from([False] * 7 + [True])), _features(st.booleans()))

NOISE = st.fixed_dictionaries(
    dict(
        case=st.integers(0, 3),  # 0 upper, 1 lower keywords/functions, 2 lower everything, 3 mixed
        comments=st.integers(0, 3),
        blank=st.integers(0, 3),
        cont=st.booleans(),
        indent=st.integers(0, 3),
        tight=st.booleans(),
        abbr=st.integers(0, 3),
        crlf=st.booleans(),
    )
)


# -----------------------------------------------------------------------------------------
# resolution


class Ctx:
    def __init__(self, nth, neta, neps, cols, feat, in_error=False, ncomp=0, reserved_readable=()):
        self.nth = nth
        self.neta = neta
        self.neps = neps
        self.cols = cols
        self.feat = feat
        self.in_error = in_error
        self.ncomp = ncomp
        self.base_readable = list(reserved_readable)
        self.uses_eps = False


def resolve_expr(e, ctx: Ctx, defs):
    op = e[0] if isinstance(e, list) and e else 'n'
    if op == 'v':
        pool = ctx.base_readable + sorted(defs)
        if pool:
            return ('var', pool[e[1] % len(pool)])
        return ('idx', 'THETA', (1 + e[1] % ctx.nth,))
    if op == 'th':
        return ('idx', 'THETA', (1 + e[1] % ctx.nth,))
    if op == 'eta':
        if ctx.neta == 0:
            return ('idx', 'THETA', (1 + e[1] % ctx.nth,))
        return ('idx', 'ETA', (1 + e[1] % ctx.neta,))
    if op == 'col':
        if not ctx.cols:
            return ('idx', 'THETA', (1 + e[1] % ctx.nth,))
        return ('var', ctx.cols[e[1] % len(ctx.cols)])
    if op == 'n':
        v, sp = NUMS[e[1] % len(NUMS)] if len(e) > 1 and isinstance(e[1], int) else NUMS[0]
        return ('num', v, sp)
    if op == 'bin' and len(e) == 4:
        o = BINOPS[e[1] % len(BINOPS)] if isinstance(e[1], int) else '+'
        a = resolve_expr(e[2], ctx, defs)
        b = resolve_expr(e[3], ctx, defs)
        if o == '**':
            # keep exponents small literal integers or simple: base ** 2 / ** 0.5 forms are what models use
            b = ('num', 2.0, '2') if b[0] != 'num' else b
        if o == '/' and _is_const(b):
            b = ('num', 2.0, '2')  # never divide by a literal zero
        return ('bin', o, a, b)
    if op == 'neg' and len(e) == 2:
        a = resolve_expr(e[1], ctx, defs)
        if not ctx.feat.get('neg_literal_pow') and a[0] == 'bin' and a[1] == '**' and a[2][0] == 'num':
            # "-2**X" (unary minus directly on a literal base of **): switched off -> "-1*2**X"
            return ('bin', '*', ('neg', ('num', 1.0, '1')), a)
        return ('neg', a)
    if op == 'call' and len(e) == 3:
        fn = FUNCS[e[1] % len(FUNCS)] if isinstance(e[1], int) else 'EXP'
        if fn in ('TAN', 'ASIN', 'ACOS') and not ctx.feat.get('unprotected_trig'):
            fn = 'ATAN'
        a = resolve_expr(e[2], ctx, defs)
        if fn in PFUNCS and not ctx.feat.get('nested_pfunc'):
            a = _no_pfunc(a)
        if _is_const(a):
            # a function of a literal (LOG10(0), SQRT(-1) ...) folds at parse time and may be outside
            # the function's domain: valid NM-TRAN would not contain it
            a = ('bin', '+', a, ('idx', 'THETA', (1,)))
        return ('call', fn, (a,))
    if op == 'mod' and len(e) == 3:
        if not ctx.feat.get('mod'):
            return resolve_expr(e[1], ctx, defs)
        d = resolve_expr(e[2], ctx, defs)
        if _is_const(d):
            d = ('num', 2.0, '2')  # never MOD by a literal zero
        return ('call', 'MOD', (resolve_expr(e[1], ctx, defs), d))
    return ('num', 1.0, '1')


def resolve_cond(c, ctx, defs):
    op = c[0] if isinstance(c, list) and c else 'rel'
    if op == 'rel' and len(c) == 4:
        o, sp = RELOPS[c[1] % len(RELOPS)] if isinstance(c[1], int) else RELOPS[0]
        a = resolve_expr(c[2], ctx, defs)
        b = resolve_expr(c[3], ctx, defs)
        if not ctx.feat.get('pfunc_in_cond'):
            a, b = _no_pfunc(a), _no_pfunc(b)
        # degenerate comparisons (constant on both sides, or an expression with itself) fold to a
        # constant truth value at parse time; they are valid NM-TRAN but say nothing about the model:
        # excluded by construction
        if _is_const(a) and _is_const(b):
            a = ('idx', 'THETA', (1,))
        if strip(a) == strip(b):
            b = ('num', 1.5, '1.5E0')
        if not ctx.feat.get('rel_shared_symbol') and (leaves(a) & leaves(b)):
            # the same symbol on both sides of a comparison (switchable shape)
            b = ('num', 1.5, '1.5E0')
        return ('rel', o, a, b, sp)
    if op in ('and', 'or') and len(c) == 3:
        return (op, resolve_cond(c[1], ctx, defs), resolve_cond(c[2], ctx, defs))
    if op == 'not' and len(c) == 2:
        return ('not', resolve_cond(c[1], ctx, defs))
    return ('rel', '>', ('idx', 'THETA', (1,)), ('num', 0.0, '0'), '.GT.')


PFUNCS = {'PEXP': 'EXP', 'PLOG': 'LOG', 'PLOG10': 'LOG10', 'PSQRT': 'SQRT', 'PDZ': 'ABS', 'PZR': 'ABS', 'PNP': 'ABS', 'PHE': 'ABS', 'PNG': 'ABS'}


def _no_pfunc(e):
    k = e[0]
    if k == 'call':
        fn = PFUNCS.get(e[1], e[1])
        return ('call', fn, tuple(_no_pfunc(a) for a in e[2]))
    if k == 'bin':
        return ('bin', e[1], _no_pfunc(e[2]), _no_pfunc(e[3]))
    if k == 'neg':
        return ('neg', _no_pfunc(e[1]))
    return e


def has_pfunc_in_cond(stmts):
    def in_expr(e):
        k = e[0]
        if k == 'call':
            return e[1] in PFUNCS or any(in_expr(a) for a in e[2])
        if k == 'bin':
            return in_expr(e[2]) or in_expr(e[3])
        if k == 'neg':
            return in_expr(e[1])
        return False

    def in_cond(c):
        if c[0] == 'rel':
            return in_expr(c[2]) or in_expr(c[3])
        return any(in_cond(x) for x in c[1:])

    for s_ in stmts:
        if s_[0] == 'if':
            for c, body in s_[1]:
                if in_cond(c) or has_pfunc_in_cond(body):
                    return True
            if s_[2] is not None and has_pfunc_in_cond(s_[2]):
                return True
    return False


def leaves(e, out=None):
    if out is None:
        out = set()
    k = e[0]
    if k in ('var', 'idx'):
        out.add((k, e[1], e[2] if k == 'idx' else None))
    elif k == 'neg':
        leaves(e[1], out)
    elif k == 'bin':
        leaves(e[2], out)
        leaves(e[3], out)
    elif k == 'call':
        for a in e[2]:
            leaves(a, out)
    return out


def _is_const(e):
    k = e[0]
    if k == 'num':
        return True
    if k in ('var', 'idx'):
        return False
    if k == 'neg':
        return _is_const(e[1])
    if k == 'bin':
        return _is_const(e[2]) and _is_const(e[3])
    if k == 'call':
        return all(_is_const(a) for a in e[2])
    return False


def resolve_code(code, ctx: Ctx, defs, lhs_pool, depth=0):
    """-> resolved statements; updates defs (set of definitely assigned names) in place"""
    out = []
    for s in code:
        if not isinstance(s, list) or not s:
            continue
        k = s[0]
        if k == 'a' and len(s) == 3:
            lhs = lhs_pool[s[1] % len(lhs_pool)] if isinstance(s[1], int) else lhs_pool[0]
            e = resolve_expr(s[2], ctx, defs)
            out.append(('asg', lhs, e))
            defs.add(lhs)
        elif k == 'l' and len(s) == 4:
            if depth > 0 and not ctx.feat.get('nested_if'):
                continue
            lhs = lhs_pool[s[2] % len(lhs_pool)] if isinstance(s[2], int) else lhs_pool[0]
            c = resolve_cond(s[1], ctx, defs)
            e = resolve_expr(s[3], ctx, defs)
            out.append(('if', [(c, [('asg', lhs, e)])], None))
        elif k == 'b' and len(s) == 3:
            if depth > 0 and not ctx.feat.get('nested_if'):
                continue
            if depth >= 2:
                continue
            branches = []
            results = []
            for br in (s[1] or [])[:3]:
                if not isinstance(br, list) or len(br) != 2:
                    continue
                c = resolve_cond(br[0], ctx, defs)
                d2 = set(defs)
                body = resolve_code(br[1] or [], ctx, d2, lhs_pool, depth + 1)
                body = _filter_branch(body, ctx)
                branches.append((c, body))
                results.append(d2)
            if not branches:
                continue
            els = None
            if s[2] is not None:
                d2 = set(defs)
                els = _filter_branch(resolve_code(s[2], ctx, d2, lhs_pool, depth + 1), ctx)
                results.append(d2)
            branches, els = _filter_block(branches, els, ctx)
            res = []
            nb = []
            for c, b in branches:
                d2 = set(defs)
                nb.append((c, _validate(b, d2, ctx)))
                res.append(d2)
            branches = nb
            if els is not None:
                d2 = set(defs)
                els = _validate(els, d2, ctx)
                res.append(d2)
                defs |= set.intersection(*res)
            out.append(('if', branches, els))
    return out


def expr_reads(e, out=None):
    if out is None:
        out = set()
    k = e[0]
    if k == 'var':
        out.add(e[1])
    elif k == 'neg':
        expr_reads(e[1], out)
    elif k == 'bin':
        expr_reads(e[2], out)
        expr_reads(e[3], out)
    elif k == 'call':
        for a in e[2]:
            expr_reads(a, out)
    elif k == 'rel':
        expr_reads(e[2], out)
        expr_reads(e[3], out)
    elif k in ('and', 'or', 'not'):
        for x in e[1:]:
            expr_reads(x, out)
    return out


def block_issues(branches, els):
    """-> set of issue names present in one IF block (top level of the block only)"""
    issues = set()
    bodies = [b for _, b in branches] + ([els] if els is not None else [])
    assigned = set()
    for b in bodies:
        assigned |= set(R.assigned_names(b))
    cond_reads = set()
    for c, _ in branches:
        cond_reads |= expr_reads(c)
    if assigned & cond_reads:
        issues.add('block_cond_dep')
    for b in bodies:
        for st_ in b:
            if st_[0] == 'asg':
                if (expr_reads(st_[2]) - {st_[1]}) & assigned:
                    issues.add('inblock_dep')
    return issues


def _filter_block(branches, els, ctx):
    """drop statements that create shapes switched off by the feature flags"""
    bodies = [b for _, b in branches] + ([els] if els is not None else [])
    assigned = set()
    for b in bodies:
        assigned |= set(R.assigned_names(b))
    cond_reads = set()
    for c, _ in branches:
        cond_reads |= expr_reads(c)

    def keep(st_):
        if st_[0] != 'asg':
            return True
        if not ctx.feat.get('block_cond_dep') and st_[1] in cond_reads:
            return False
        return True

    branches = [(c, [x for x in b if keep(x)]) for c, b in branches]
    if els is not None:
        els = [x for x in els if keep(x)]
    if not ctx.feat.get('inblock_dep'):
        # iterate: removing a statement changes the set of assigned names
        for _ in range(4):
            bodies = [b for _, b in branches] + ([els] if els is not None else [])
            assigned = set()
            for b in bodies:
                assigned |= set(R.assigned_names(b))

            def keep2(st_):
                return st_[0] != 'asg' or not ((expr_reads(st_[2]) - {st_[1]}) & assigned)

            nb = [(c, [x for x in b if keep2(x)]) for c, b in branches]
            ne = [x for x in els if keep2(x)] if els is not None else None
            if nb == branches and ne == els:
                break
            branches, els = nb, ne
    return branches, els


def _validate(body, defs, ctx):
    """drop statements that (after filtering) would read a variable not definitely assigned"""
    ok = set(ctx.cols) | set(ctx.base_readable)
    out = []
    for st_ in body:
        if st_[0] == 'asg':
            if expr_reads(st_[2]) <= (defs | ok):
                out.append(st_)
                defs.add(st_[1])
        else:
            br = []
            res = []
            good = True
            for c, b in st_[1]:
                if not expr_reads(c) <= (defs | ok):
                    good = False
                    break
                d2 = set(defs)
                br.append((c, _validate(b, d2, ctx)))
                res.append(d2)
            if not good:
                continue
            els = None
            if st_[2] is not None:
                d2 = set(defs)
                els = _validate(st_[2], d2, ctx)
                res.append(d2)
                defs |= set.intersection(*res)
            out.append(('if', br, els))
    return out


def _filter_branch(body, ctx):
    if ctx.feat.get('inblock_reassign'):
        return body
    seen = set()
    out = []
    for s in body:
        if s[0] == 'asg':
            if s[1] in seen:
                continue
            seen.add(s[1])
        out.append(s)
    return out


# -----------------------------------------------------------------------------------------
# direct evaluation of the resolved AST (drop spelling fields and reuse reference evaluator
# structures -- the *parser* is what the self-check validates)


def strip(e):
    k = e[0]
    if k == 'num':
        return ('num', e[1])
    if k in ('var', 'idx'):
        return e
    if k == 'neg':
        return ('neg', strip(e[1]))
    if k == 'bin':
        return ('bin', e[1], strip(e[2]), strip(e[3]))
    if k == 'call':
        return ('call', e[1], tuple(strip(a) for a in e[2]))
    if k == 'rel':
        return ('rel', e[1], strip(e[2]), strip(e[3]))
    if k in ('and', 'or'):
        return (k, strip(e[1]), strip(e[2]))
    if k == 'not':
        return ('not', strip(e[1]))
    raise ValueError(e)


def strip_code(stmts):
    out = []
    for s in stmts:
        if s[0] == 'asg':
            out.append(('asg', s[1], strip(s[2])))
        else:
            out.append(('if', [(strip(c), strip_code(b)) for c, b in s[1]], strip_code(s[2]) if s[2] is not None else None))
    return out


# -----------------------------------------------------------------------------------------
# printing with minimal parentheses (Fortran precedence) and layout noise


def prec(e):
    k = e[0]
    if k == 'bin':
        return {'+': 1, '-': 1, '*': 2, '/': 2, '**': 3}[e[1]]
    if k == 'neg':
        return 1
    if k == 'num' and e[1] < 0:
        return 1
    return 4


class Printer:
    def __init__(self, noise):
        self.noise = noise
        self.counter = 0

    def kw(self, s):
        c = self.noise.get('case', 0)
        if c == 0:
            return s
        if c in (1, 2):
            return s.lower()
        self.counter += 1
        return s.lower() if self.counter % 2 else s

    def name(self, s):
        c = self.noise.get('case', 0)
        if c == 2:
            return s.lower()
        if c == 3:
            self.counter += 1
            return s.lower() if self.counter % 3 == 0 else s
        return s

    def sp(self):
        return '' if self.noise.get('tight') else ' '

    def expr(self, e, minprec=0):
        k = e[0]
        if k == 'num':
            s = e[2] if len(e) > 2 else repr(e[1])
        elif k == 'var':
            s = self.name(e[1])
        elif k == 'idx':
            s = f'{self.kw(e[1])}({",".join(str(i) for i in e[2])})'
        elif k == 'neg':
            s = '-' + self.expr(e[1], 2)
        elif k == 'bin':
            o = e[1]
            p = prec(e)
            sp = self.sp() if o in '+-' else ''
            if o == '**':
                left = self.expr(e[2], 4)
                right = self.expr(e[3], 3) if prec(e[3]) >= 3 else '(' + self.expr(e[3], 0) + ')'
                s = f'{left}**{right}'
            else:
                left = self.expr(e[2], p)
                right = self.expr(e[3], p + 1)
                s = f'{left}{sp}{o}{sp}{right}'
        elif k == 'call':
            s = f'{self.kw(e[1])}({", ".join(self.expr(a, 0) for a in e[2])})'
        else:
            raise ValueError(e)
        if prec(e) < minprec:
            return '(' + s + ')'
        return s

    def cond(self, c, minprec=0):
        k = c[0]
        if k == 'rel':
            sp = c[4] if len(c) > 4 else {'==': '.EQ.', '/=': '.NE.', '<': '.LT.', '<=': '.LE.', '>': '.GT.', '>=': '.GE.'}[c[1]]
            pad = '' if (self.noise.get('tight') and sp.startswith('.')) else ' '
            a = self.expr(c[2], 1)
            b = self.expr(c[3], 1)
            if pad == '' and (a[-1].isdigit() or a[-1] == '.' or b[0].isdigit() or b[0] == '.'):
                # "1.EQ.X" / "X.EQ.1.AND." are lexically ambiguous in Fortran fixed form too: keep a blank
                pad = ' '
            s = f'{a}{pad}{self.kw(sp)}{pad}{b}'
            p = 3
        elif k == 'not':
            s = f'{self.kw(".NOT.")} ' + self.cond(c[1], 3)
            p = 2
        elif k == 'and':
            s = self.cond(c[1], 1) + f' {self.kw(".AND.")} ' + self.cond(c[2], 2)
            p = 1
        elif k == 'or':
            s = self.cond(c[1], 0) + f' {self.kw(".OR.")} ' + self.cond(c[2], 1)
            p = 0
        else:
            raise ValueError(c)
        if p < minprec:
            return '(' + s + ')'
        return s

    def code(self, stmts, lines=None, depth=0):
        if lines is None:
            lines = []
        ind = ' ' * (self.noise.get('indent', 0) * (depth + 1) if self.noise.get('indent') else 0)
        for s in stmts:
            if s[0] == 'asg':
                lines.append(self._asg(ind, s))
            else:
                branches, els = s[1], s[2]
                if len(branches) == 1 and els is None and len(branches[0][1]) == 1 and branches[0][1][0][0] == 'asg' and self.noise.get('abbr', 0) != 3:
                    c, body = branches[0]
                    a = body[0]
                    lines.append(f'{ind}{self.kw("IF")} ({self.cond(c)}) {self.name(a[1])}{self.sp()}={self.sp()}{self.expr(a[2])}')
                    self._noise_after(lines)
                    continue
                for bi, (c, body) in enumerate(branches):
                    if bi == 0:
                        lines.append(f'{ind}{self.kw("IF")} ({self.cond(c)}) {self.kw("THEN")}')
                    else:
                        ei = 'ELSE IF' if self.noise.get('abbr', 0) % 2 else 'ELSEIF'
                        lines.append(f'{ind}{self.kw(ei)} ({self.cond(c)}) {self.kw("THEN")}')
                    self.code(body, lines, depth + 1)
                if els is not None:
                    lines.append(f'{ind}{self.kw("ELSE")}')
                    self.code(els, lines, depth + 1)
                lines.append(f'{ind}{self.kw("END IF" if self.noise.get("abbr", 0) >= 2 else "ENDIF")}')
                self._noise_after(lines)
        return lines

    def _asg(self, ind, s):
        txt = f'{ind}{self.name(s[1])}{self.sp()}={self.sp()}{self.expr(s[2])}'
        if self.noise.get('cont') and len(txt) > 30 and ' + ' in txt:
            i = txt.index(' + ', len(txt) // 3) if ' + ' in txt[len(txt) // 3 :] else -1
            if i > 0:
                txt = txt[: i + 2] + ' &\n' + ind + '   ' + txt[i + 2 :]
        lines = [txt]
        self._noise_after(lines)
        return '\n'.join(lines)

    def _noise_after(self, lines):
        self.counter += 1
        c = self.noise.get('comments', 0)
        if c and self.counter % (5 - c) == 0:
            lines[-1] = lines[-1] + ' ; note ' + str(self.counter)
        b = self.noise.get('blank', 0)
        if b and self.counter % (6 - b) == 0:
            lines.append('' if b < 3 else '  ; standalone comment')
