"""$THETA / $OMEGA / $SIGMA record layouts, second generation (superset of gen_layout used by C04).

JSON spec -> record text + expected meaning (same meaning format as pv.ref.nmtran.parse_theta_record /
parse_omega_record).  Adds to gen_layout: FIX after a parenthesis with bounds, FIX before the value,
implied FIX (low=init=up), (v FIX)xn, free (non-name) comments, name comments followed by text;
diagonal $OMEGA items with FIX / SD on any item, repeat at any position, commas, one item per line with
name comments; blocks with rows on lines + name comments, commas, trailing FIX, abbreviated scale words,
a (v)x2 repeat inside a BLOCK(3).  Never generates BLOCK(n) VALUES(d,o).
Interpretation of specs is total (missing / shrunk fields fall back to defaults).  No pharmpy import.
"""

from __future__ import annotations

import math

from hypothesis import strategies as st

from . import gen_layout as GL

INF = float('inf')
VALS = GL.VALS
DIAGS = GL.DIAGS
CORRS = GL.CORRS


def _i(d, k, default=0):
    x = d.get(k, default) if isinstance(d, dict) else default
    return x if isinstance(x, int) and not isinstance(x, bool) else default


def _b(d, k):
    return bool(d.get(k)) if isinstance(d, dict) else False


def _lst(d, k, n):
    x = d.get(k) if isinstance(d, dict) else None
    x = [y if isinstance(y, int) and not isinstance(y, bool) else 0 for y in x] if isinstance(x, list) else []
    return (x + [0] * n)[:n]


# ------------------------------------------------------------------------------------------
# $THETA

N_THETA_FORMS = 18

THETA_ITEM = st.fixed_dictionaries(
    dict(
        form=st.integers(0, N_THETA_FORMS - 1),
        v=st.integers(0, len(VALS) - 1),
        lo=st.integers(0, 3),
        up=st.integers(0, 3),
        rep=st.integers(0, 1),
        name=st.integers(0, 5),
        nl=st.booleans(),
    )
)
THETA_LAYOUT = st.lists(THETA_ITEM, min_size=1, max_size=6)


def theta_item(it, expand=False):
    """-> (text, [dict(init, lower, upper, fix)] * repeats); expand: write (..)xn as n copies"""
    v, sp = VALS[_i(it, 'v') % len(VALS)]
    form = _i(it, 'form') % N_THETA_FORMS
    lo_d = [0.0, 0.5, 0.9, 1.0][_i(it, 'lo') % 4]
    up_d = [0.5, 1.0, 9.0, 100.0][_i(it, 'up') % 4]
    lo = 0.0 if lo_d == 0.0 else v - lo_d * abs(v)
    up = v + up_d * abs(v)
    lo_s, up_s = GL._fmt(lo), GL._fmt(up)
    lo, up = float(lo_s), float(up_s)
    rep_n = 2 + _i(it, 'rep') % 2
    one = dict(init=v, lower=-INF, upper=INF, fix=False)
    rep = 1
    if form == 0:
        txt = sp
    elif form == 1:
        txt = f'{sp} FIX'
        one['fix'] = True
    elif form == 2:
        txt = f'({sp})'
    elif form == 3:
        txt = f'({lo_s},{sp})'
        one['lower'] = lo
    elif form == 4:
        txt = f'({lo_s}, {sp}, {up_s})'
        one['lower'], one['upper'] = lo, up
    elif form == 5:
        txt = f'({sp} FIX)'
        one['fix'] = True
    elif form == 6:
        txt = f'({sp}) FIXED'
        one['fix'] = True
    elif form == 7:
        rep = rep_n
        txt = f'({sp})x{rep}'
    elif form == 8:
        rep = rep_n
        txt = f'({lo_s},{sp},{up_s})x{rep}'
        one['lower'], one['upper'] = lo, up
    elif form == 9:
        txt = f'(-INF,{sp},INF)'
    elif form == 10:
        txt = f'({lo_s} {sp} {up_s})'
        one['lower'], one['upper'] = lo, up
    elif form == 11:
        txt = f'({lo_s},{sp},1000000)'
        one['lower'] = lo
    elif form == 12:
        txt = f'({lo_s},{sp},{up_s}) FIX'
        one['lower'], one['upper'], one['fix'] = lo, up, True
    elif form == 13:
        txt = f'({lo_s},{sp}) FIXED'
        one['lower'], one['fix'] = lo, True
    elif form == 14:
        txt = f'(FIX {sp})'
        one['fix'] = True
    elif form == 15:
        txt = f'({sp},{sp},{sp})'
        one['lower'], one['upper'], one['fix'] = v, v, True
    elif form == 16:
        rep = rep_n
        txt = f'({sp} FIX)x{rep}'
        one['fix'] = True
    else:
        txt = f'(-INF,{sp},{up_s})'
        one['upper'] = up
    if expand and rep > 1:
        txt = ' '.join([txt[: txt.rindex('x')]] * rep)
    return txt, [dict(one) for _ in range(rep)]


def render_thetas(layout, per_record=3, expand=False):
    """-> (list of record texts, list of expected thetas)"""
    recs, exp, cur = [], [], []
    for it in (layout if isinstance(layout, list) else [])[:6]:
        if not isinstance(it, dict):
            continue
        txt, ones = theta_item(it, expand)
        if len(exp) + len(ones) > 8:
            break
        nm = _i(it, 'name') % 6
        k = len(exp) + 1
        nl = _b(it, 'nl')
        if nm == 1 and len(ones) == 1:
            txt += f' ; TH{k}'
            nl = True
        elif nm == 2:
            txt += f' ; {k}. typical value'
            nl = True
        elif nm == 3 and len(ones) == 1:
            txt += f' ; TV{k} L/h'
            nl = True
        cur.append(txt + ('\n' if nl else ' '))
        exp += ones
        if len(cur) >= max(1, per_record):
            recs.append('$THETA ' + ''.join(cur).rstrip(' '))
            cur = []
    if cur:
        recs.append('$THETA ' + ''.join(cur).rstrip(' '))
    recs = [r if r.endswith('\n') else r + '\n' for r in recs]
    return recs, exp


# ------------------------------------------------------------------------------------------
# $OMEGA / $SIGMA

OMEGA_ITEM = st.fixed_dictionaries(
    dict(
        kind=st.integers(0, 10),  # 0-3 diagonal forms, 4-7 block forms, 8-10 same (needs a preceding block)
        n=st.integers(1, 3),
        d=st.lists(st.integers(0, 7), min_size=3, max_size=3),
        o=st.lists(st.integers(0, 8), min_size=3, max_size=3),
        scale=st.integers(0, 5),
        fix=st.booleans(),
        fixm=st.integers(1, 7),
        sdm=st.integers(1, 7),
        optpos=st.integers(0, 3),
        rep=st.integers(0, 1),
        repat=st.integers(0, 2),
        sep=st.integers(0, 3),
        nl=st.booleans(),
        name=st.booleans(),
        words=st.integers(0, 1),
    )
)
OMEGA_LAYOUT = st.lists(OMEGA_ITEM, min_size=1, max_size=4)

SCALE_WORDS = {
    0: ['', ''],
    1: ['STANDARD', 'SD'],
    2: ['SD CORRELATION', 'STANDARD CORR'],
    3: ['VARIANCE CORRELATION', 'CORR VARIANCE'],
    4: ['CHOLESKY', 'CHOL'],
    5: ['VARIANCE COVARIANCE', 'COV'],
}


def diag_record(it, eta_start, max_n, pfx, expand=False):
    kind = _i(it, 'kind') % 4
    n = max(1, min(_i(it, 'n', 1), max_n, 3))
    dsel = _lst(it, 'd', 3)
    fixm = _i(it, 'fixm', 1) if _b(it, 'fix') else 0
    sdm = _i(it, 'sdm', 1) if kind == 2 else 0
    optpos = _i(it, 'optpos') % 4
    named = _b(it, 'name')
    toks, diag, fixes, reps = [], [], [], []
    for a in range(n):
        v, sp = DIAGS[dsel[a] % len(DIAGS)]
        f = bool(fixm >> a & 1)
        sd = bool(sdm >> a & 1)
        r = 1
        if kind == 3 and a == _i(it, 'repat') % n:
            r = 2 + _i(it, 'rep') % 2
            if len(diag) + r + (n - a - 1) > max_n:
                r = 1
        words = (['SD'] if sd else []) + (['FIX'] if f else [])
        if _i(it, 'words') % 2 and sd:
            words[0] = 'STANDARD'
        if r > 1 or (kind == 3 and a == _i(it, 'repat') % n):
            t = '(' + ' '.join([sp] + words) + ')'
            t = ' '.join([t] * r) if expand else t + (f'x{r}' if r > 1 else '')
        elif not words:
            t = sp
        elif optpos == 0:
            t = ' '.join([sp] + words)
        elif optpos == 1:
            t = '(' + ' '.join([sp] + words) + ')'
        elif optpos == 2:
            t = '(' + ' '.join(words + [sp]) + ')'
        else:
            t = '(' + ', '.join([sp] + words) + ')' if len(words) > 1 else '(' + ' '.join(words + [sp]) + ')'
        toks.append(t)
        reps.append(r)
        val = v * v if sd else v
        diag += [val] * r
        fixes += [f] * r
    head = f'DIAGONAL({len(diag)}) ' if kind == 1 else ''
    if named:
        out = []
        k = eta_start
        for t, r in zip(toks, reps):
            out.append(t + (f' ; {pfx}{k}' if r == 1 else ' ; 2 or 3 times'))
            k += r
        body = '\n'.join(out)
    else:
        sep = [' ', '\n'][_i(it, 'sep') % 2]  # pharmpy cannot read commas between $OMEGA values (C01)
        body = sep.join(toks)
    return head + body, dict(kind='diag', size=len(diag), diag=diag, fix=fixes)


def block_record(it, eta_start, max_n, pfx, expand=False):
    n = min(max(2, _i(it, 'n', 2)), max_n, 3)
    if n < 1:
        return None
    scale = _i(it, 'scale') % 6
    dsel, osel = _lst(it, 'd', 3), _lst(it, 'o', 3)
    ds = [DIAGS[dsel[a % 3] % len(DIAGS)] for a in range(n)]
    cs = {}
    k = 0
    for a in range(n):
        for b in range(a):
            cs[(a, b)] = CORRS[osel[k % 3] % len(CORRS)]
            k += 1
    reprow = n == 3 and scale in (0, 5) and _i(it, 'kind') % 4 == 3
    if reprow:
        cs[(2, 1)] = cs[(2, 0)]
    vals = []
    for a in range(n):
        row = []
        for b in range(a + 1):
            if a == b:
                row.append(ds[a])
            else:
                c, csp = cs[(a, b)]
                if scale in (2, 3):
                    row.append((c, csp))
                elif scale == 4:
                    v = round(c * 0.3, 6)
                    row.append((v, repr(v)))
                else:
                    da, db = ds[a][0], ds[b][0]
                    if reprow and a == 2:
                        db = ds[0][0]
                    v = float(f'{c * da * db:.6g}') if scale == 1 else float(f'{c * math.sqrt(da * db):.6g}')
                    row.append((v, f'{v:.6g}'))
        vals.append(row)
    Lm = [[vals[a][b][0] if b <= a else 0.0 for b in range(n)] for a in range(n)]
    if scale == 4:
        M = [[sum(Lm[a][c] * Lm[b][c] for c in range(n)) for b in range(n)] for a in range(n)]
    else:
        M = [[Lm[max(a, b)][min(a, b)] for b in range(n)] for a in range(n)]
        d = [M[a][a] for a in range(n)]
        sd = scale in (1, 2)
        corr = scale in (2, 3)
        sdv = [x if sd else math.sqrt(x) for x in d]
        for a in range(n):
            for b in range(n):
                if a != b and corr:
                    M[a][b] = M[a][b] * sdv[a] * sdv[b]
        for a in range(n):
            M[a][a] = d[a] ** 2 if sd else d[a]
    vsep = [' ', '  '][_i(it, 'sep') % 2]  # no commas: unreadable for pharmpy (C01)
    named = _b(it, 'name')
    rows = []
    for a in range(n):
        sps = [sp for _, sp in vals[a]]
        if reprow and a == 2:
            sps = [sps[0], sps[0], sps[2]] if expand else [f'({sps[0]})x2', sps[2]]
        t = vsep.join(sps)
        if named:
            t += f' ; {pfx}{eta_start + a}'
        rows.append(t)
    body = ('\n' if (named or _b(it, 'nl')) else ' ').join(rows)
    words = SCALE_WORDS[scale][_i(it, 'words') % 2]
    fix = _b(it, 'fix')
    fixw = 'FIX' if fix else ''
    pos = _i(it, 'optpos') % 4
    if pos == 0:
        txt = f'BLOCK({n}) {words} {fixw}\n{body}'
    elif pos == 1:
        txt = f'{words} BLOCK({n}) {fixw}\n{body}'
    elif pos == 2:
        txt = f'BLOCK({n}) {fixw} {words}\n{body}'
    elif named:
        txt = f'BLOCK({n}) {words} {fixw}\n{body}'
    else:
        txt = f'BLOCK({n}) {words}\n{body} {fixw}'
    txt = '\n'.join(' '.join(ln.split()) for ln in txt.split('\n')).strip()
    return txt, dict(kind='block', size=n, matrix=M, fix=fix)


def same_record(it, prev_block_size):
    form = _i(it, 'optpos') % 3
    if form == 0:
        return f'BLOCK({prev_block_size}) SAME', dict(kind='same', size=prev_block_size, nsame=1)
    if form == 1:
        return 'BLOCK SAME', dict(kind='same', size=None, nsame=1)
    m = 2 + _i(it, 'rep') % 2
    return f'BLOCK({prev_block_size}) SAME({m})', dict(kind='same', size=prev_block_size, nsame=m)


def render_omegas(layout, record='OMEGA', max_total=5, expand=False):
    """-> (record texts, parsed meanings, number of etas). Records that would exceed max_total etas or
    that are not PD with margin are skipped."""
    recs, meanings = [], []
    total = 0
    prev_block = None
    pfx = 'IIV' if record == 'OMEGA' else 'RUV'
    for it in (layout if isinstance(layout, list) else [])[:4]:
        if not isinstance(it, dict):
            continue
        kind = _i(it, 'kind') % 11
        room = max_total - total
        if room <= 0:
            break
        if kind <= 3:
            r = diag_record(it, total + 1, min(3, room), pfx, expand)
        elif kind >= 8:
            if prev_block is None:
                continue
            r = same_record(it, prev_block)
        else:
            r = block_record(it, total + 1, min(3, room), pfx, expand)
        if r is None:
            continue
        txt, m = r
        size = prev_block * m['nsame'] if m['kind'] == 'same' else m['size']
        if size <= 0 or total + size > max_total:
            continue
        if m['kind'] == 'block' and not GL.is_pd(m['matrix'], margin=1e-3):
            continue
        if m['kind'] == 'block':
            prev_block = m['size']
        elif m['kind'] == 'diag':
            prev_block = None
        recs.append(f'${record} {txt}\n')
        meanings.append(m)
        total += size
    return recs, meanings, total
