"""Generator of NM-TRAN data files + $INPUT/$DATA options (C13) and of numeric data frames.

`DATASPEC` / `FRAMESPEC` are Hypothesis strategies of JSON specs; `build(spec, mode)` and
`build_frame(spec)` interpret a spec *totally* (every shrunk / mutated spec is a valid
case).  No pharmpy import.  Only forms whose meaning docs/NONMEM.rst pins down are rendered;
the builder repairs combinations the text leaves open (e.g. an empty item between a comma
and a TAB) instead of producing them.

Data spec (ints are reduced modulo the number of options):

    id       first column is ID (always in pk mode); its items are non-decreasing positive
             integers written in integral lexical forms
    cols     1-6 x [name, kind]: kind 0-2 plain, 3 NAME=DROP, 4 DROP=NAME, 5 NAME=SKIP,
             6 SKIP=NAME, 7 DROP, 8 SKIP, 9 RESERVED=SYN, 10 SYN=RESERVED, 11 non-reserved synonym (error)
    rows     1-8 x {t, items, seps, lead, trail, step}; t: 0 data, 1 comment, 2 '#' line
             items: [form, a, b] (see FORMS), seps: separator kinds (see SEPS)
    first    0: first data row is made at least as long as every other row (most cases),
             1: as generated
    header   a header line with the column names comes first
    ic       IGNORE=c choice (IC), null: NULL=c choice (NULLS)
    inj      up to 2 x [row, col, kind, a]: kind 0-2 text item, 3 23 chars, 4 24 chars, 5 25 chars
    err      0 none; 1 empty line inserted, 2 line of spaces/TABs inserted, 3 blank before a TAB,
             4 empty line at the end, 5 final line of spaces without newline
    filters  {accept, items: up to 3 x [col, op, val, quote, sp]}, style: rendering variants
    nl       final newline present
    miss     up to 2 x [row, k, f]: the missing data token -99 is put into the column of filter k (when
             there are filters; odd f also makes that filter a numeric comparison) or into item k of the row
    pk       (model mode) pk % 6 >= 3: $PK model with marker column pk % 3: 0 MDV, 1 EVID, 2 only AMT
"""

from __future__ import annotations

import struct

from hypothesis import strategies as st

from ..ref import nmdata

NAMES = ['DV', 'WGT', 'AGE', 'SEX', 'CRCL', 'X1', 'X2', 'COV_1', 'HT', 'OCC', 'FLAG', 'AMT', 'MDV', 'EVID']
SYN = {'DV': 'CONC', 'AMT': 'DOSE', 'MDV': 'MISS', 'EVID': 'EVT'}
IC = [None] * 10 + ['@'] * 10 + ['#', '#', 'C', 'C', 'I', 'I', '!', ':', '*', 'c', '%', '?', '^', '\\']
NULLS = [None, None, None, None, '0', '7', '1', '-', '+', '9']
SEPS = [',', ',', ', ', ' ,', ' , ', ' ', ' ', '  ', '\t', '\t', '\t ', '\t  ', ',  ']
TEXTS = ['X', 'abc', '1x', 'A1', '1:30', 'n/a', 'x.y', 'a_1', 'Q']
LONGTEXT = 'averyveryverylongtextitemexceeding24'
SPECIALS = ['4.9E-324', '2.2250738585072014E-308', '1.7976931348623157E308', '0.1', '-0', '-0.0', '1E-320', '1E22', '123456789012345678', '0.30000000000000004']
TEXT_OPS = ['.EQ.', '.NE.', '==', '=', '/=']
NUM_OPS = ['.EQN.', '.NEN.', '.LT.', '<', '.LE.', '<=', '.GT.', '>', '.GE.', '>=']
OPS = TEXT_OPS + NUM_OPS
MISSING_TOKEN = '-99'

ITEM = st.tuples(
    st.sampled_from([0, 0, 0, 0, 1, 1, 2, 2, 3, 4, 5, 5, 6, 7, 7, 8, 8, 9]),
    st.integers(-999, 999),
    st.integers(0, 99),
).map(list)
ROW = st.fixed_dictionaries(
    dict(
        t=st.sampled_from([0] * 12 + [1, 1, 2]),
        items=st.lists(ITEM, min_size=1, max_size=8),
        seps=st.lists(st.integers(0, len(SEPS) - 1), min_size=8, max_size=8),
        fam=st.sampled_from([0, 0, 1, 2, 3, 3]),
        lead=st.sampled_from([0, 0, 0, 1, 2]),
        trail=st.sampled_from([0, 0, 0, 1, 2, 3, 4]),
        step=st.sampled_from([0, 0, 1, 1, 2]),
    )
)
FILTER = st.tuples(st.integers(0, 11), st.integers(0, len(OPS) - 1), st.integers(0, 40), st.integers(0, 2), st.integers(0, 3)).map(list)
DATASPEC = st.fixed_dictionaries(
    dict(
        id=st.booleans(),
        cols=st.lists(st.tuples(st.integers(0, len(NAMES) - 1), st.integers(0, 11)).map(list), min_size=1, max_size=6),
        rows=st.lists(ROW, min_size=1, max_size=8),
        first=st.sampled_from([0, 0, 0, 0, 0, 1]),
        header=st.sampled_from([0, 0, 1]),
        ic=st.integers(0, len(IC) - 1),
        null=st.integers(0, len(NULLS) - 1),
        inj=st.lists(st.tuples(st.integers(0, 7), st.integers(0, 7), st.integers(0, 5), st.integers(0, 999)).map(list), max_size=2),
        err=st.sampled_from([0] * 30 + [1, 2, 3, 3, 4, 5]),
        errpos=st.integers(0, 8),
        filters=st.fixed_dictionaries(dict(accept=st.sampled_from([False, False, False, True]), items=st.lists(FILTER, max_size=3))),
        style=st.integers(0, 63),
        nl=st.sampled_from([True, True, True, False]),
        pk=st.sampled_from([0, 0, 0, 0, 3, 4, 5]),
        miss=st.one_of(st.just([]), st.lists(st.tuples(st.integers(0, 7), st.integers(0, 7), st.integers(0, 15)).map(list), min_size=1, max_size=2)),
    )
)


# ----------------------------------------------------------------------------------------
# items


def _mant(a, b):
    """a small decimal mantissa text"""
    if b % 3 == 0:
        return str(abs(a) % 100)
    if b % 3 == 1:
        return f'{abs(a) % 100}.{b % 10}'
    return f'{abs(a) % 10}.'


def render_item(form, a, b):
    """-> item text ('' = empty item).  All forms are valid data items."""
    form %= 10
    if form == 0:
        t = str(abs(a) % 10)
    elif form == 1:
        t = str(a)
    elif form == 2:
        t = f'{a}.{b}' if b % 2 else f'{a // 10}.{b:02d}'
    elif form == 3:
        t = ('-' if a < 0 else '') + _mant(a, b) + ('E' if b % 2 else 'e') + ['', '+', '-'][b % 3] + str(b % 4)
    elif form == 4:
        t = ('-' if a < 0 else '+' if b % 5 == 0 else '') + _mant(a, b) + ('D' if b % 2 else 'd') + ['', '+', '-'][(b // 3) % 3] + str(b % 4)
    elif form == 5:
        t = ('-' if a < 0 else '+' if b % 7 == 0 else '') + _mant(a, b) + ['+', '-'][b % 2] + str(b % 5)
    elif form == 6:
        t = '+' if a % 2 else '-'
    elif form == 7:
        t = '.'
    elif form == 8:
        t = ''
    else:
        t = SPECIALS[abs(a) % len(SPECIALS)]
    if t == MISSING_TOKEN:
        t = '-98'
    return t


def render_long(n, a):
    """a valid number of exactly n characters"""
    v = a % 4
    base = str(a % 1000)
    if v == 0:
        return base.rjust(n, '0')
    if v == 1:
        return (base + '.').ljust(n, '0')
    if v == 2:
        return '-' + (base + '.5').ljust(n - 1, '0')
    return ('0.' + base).rjust(n - 2, '0') + 'E1'


def render_id(value, a):
    k = a % 8
    if k == 5:
        return f'{value}.0'
    if k == 6:
        return f'+{value}'
    if k == 7:
        return f'{value}E0' if a % 16 == 7 else f'0{value}'
    return str(value)


# ----------------------------------------------------------------------------------------
# building


class Built:
    pass


def input_entries(spec, pk=None):
    """-> list of (key, value|None) for $INPUT; names are unique."""
    cols = [list(c) for c in spec.get('cols', [])[:6]] or [[0, 0]]
    used = set()
    if pk is not None:
        used.update(['AMT', 'MDV', 'EVID'])

    def fresh(k):
        for d in range(len(NAMES)):
            nm = NAMES[(k + d) % len(NAMES)]
            if nm not in used and SYN.get(nm) not in used:
                used.add(nm)
                return nm
        raise AssertionError

    gen = []
    for c in cols:
        k, kind = (list(c) + [0, 0])[:2]
        nm = fresh(k)
        kind %= 12
        if kind <= 2:
            gen.append((nm, None))
        elif kind == 3:
            gen.append((nm, 'DROP'))
        elif kind == 4:
            gen.append(('DROP', nm))
        elif kind == 5:
            gen.append((nm, 'SKIP'))
        elif kind == 6:
            gen.append(('SKIP', nm))
        elif kind == 7:
            gen.append(('DROP', None))
        elif kind == 8:
            gen.append(('SKIP', None))
        elif kind in (9, 10) and nm in SYN:
            used.add(SYN[nm])
            gen.append((nm, SYN[nm]) if kind == 9 else (SYN[nm], nm))
        elif kind == 11 and k % 7 == 0 and nm not in nmdata.RESERVED:
            # synonym between two non-reserved names: documented refusal (rare)
            gen.append((nm, 'ZZ' + nm))
        else:
            gen.append((nm, None))
    if pk is not None:
        marker = ['MDV', 'EVID', None][pk % 3]
        return [('ID', None)] + gen[:1] + [('AMT', None)] + ([(marker, None)] if marker else []) + gen[1:3]
    if spec.get('id'):
        return [('ID', None)] + gen[:5]
    return gen


def _kind(sep):
    return ',' if ',' in sep else ('t' if '\t' in sep else ' ')


def _render_row(items, row):
    """items: list of item texts ('' = empty).  -> line text.  Separators are repaired so that
    every empty item is one of the NULL forms the text defines (between two commas, between
    two TABs, before a leading comma, after a trailing comma / TAB); otherwise it becomes '.'"""
    n = len(items)
    fam = row.get('fam', 0) % 4  # 0 mixed, 1 commas only, 2 blanks only, 3 TABs only
    raw = list(row.get('seps', [])) + [0] * n
    seps = []
    for i in range(n - 1):
        s = SEPS[raw[i] % len(SEPS)]
        if fam == 1 and _kind(s) != ',':
            s = ','
        elif fam == 2 and _kind(s) != ' ':
            s = ' '
        elif fam == 3 and _kind(s) != 't':
            s = '\t'
        seps.append(s)
    items = list(items)
    for i in range(n):
        if items[i] != '':
            continue
        L = _kind(seps[i - 1]) if i > 0 else None
        R = _kind(seps[i]) if i < n - 1 else None
        if L is None and R is None:
            items[i] = '.'
        elif L is None:
            if R != ',':
                items[i] = '.'
        elif R is None:
            if L == ' ':
                items[i] = '.'
            elif L == 't':
                seps[i - 1] = '\t'
        elif L == ',':
            if R != ',':
                seps[i] = ','
        elif L == 't':
            seps[i - 1] = '\t'  # nothing between the two TABs
            if R != 't':
                seps[i] = '\t'
        else:
            items[i] = '.'
    line = items[0]
    for i in range(1, n):
        line += seps[i - 1] + items[i]
    lead = ['', '', '', ' ', '   '][row.get('lead', 0) % 5]
    trail = ['', '', '', ' ', '  ', ',', ' ,'][row.get('trail', 0) % 7]
    if items[-1] == '':
        trail = ''
    return lead + line + trail


def build(spec, mode='lexical'):
    """mode: 'lexical' | 'pred' | 'pk'"""
    b = Built()
    pk = (spec.get('pk', 0) % 3) if mode == 'pk' else None
    entries = input_entries(spec, pk)
    b.entries = entries
    try:
        names, drop, alias = nmdata.resolve_input(entries)
        b.input_error = None
    except nmdata.DataError as e:
        # keep going with provisional names so that the file is still built
        b.input_error = e.reason
        names = [k if v is None or v in ('DROP', 'SKIP') else k for k, v in entries]
        drop = [False] * len(names)
        alias = {n: n for n in names}
    b.names, b.drop, b.alias = names, drop, alias
    ncols = len(names)
    ic = IC[spec.get('ic', 0) % len(IC)]
    null = NULLS[spec.get('null', 0) % len(NULLS)]
    b.ic, b.null = ic, null
    has_id = entries[0] == ('ID', None)

    rows = list(spec.get('rows', []))[:8] or [dict(t=0, items=[[0, 1, 0]])]
    # data rows: item texts
    texts = []  # per row: None for non-data rows
    idv = 0
    for r in rows:
        if r.get('t', 0) % 3 != 0:
            texts.append(None)
            continue
        src = [(list(x) + [0, 0, 0])[:3] for x in r.get('items', [])[: ncols + 2]] or [[0, 1, 0]]
        its = [render_item(*x) for x in src]
        for j, x in enumerate(src):
            # text is legal in DROPped and surplus columns (R-dropped-any, R-surplus)
            if (j >= ncols or drop[j]) and x[0] % 10 == 1 and x[1] % 3 == 0:
                its[j] = TEXTS[abs(x[1]) % len(TEXTS)] if x[2] % 9 else LONGTEXT
        if has_id:
            idv += r.get('step', 0) % 3 if idv else 1
            its[0] = render_id(idv, (list(r.get('items', [[0, 0, 0]])[0]) + [0, 0])[1])
        texts.append(its)
    kinds = [r.get('t', 0) % 3 for r in rows]
    if not any(t is not None for t in texts):
        texts[0] = [render_id(1, 0)] if has_id else ['1']
        kinds[0] = 0
    # pk marker columns: legal event values
    if pk is not None:
        for r, its in zip(rows, texts):
            if its is None:
                continue
            src = list(r.get('items', []))
            for j, nm in enumerate(names):
                if j < len(its) and nm in ('MDV', 'EVID', 'AMT'):
                    x = abs((list(src[j]) + [0, 0])[1]) if j < len(src) else 0
                    v = x % {'MDV': 2, 'EVID': 3, 'AMT': 3}[nm]
                    its[j] = str(v) if v else ['0', '0.0', '.', '0', '-', '0E0'][x // 7 % 6]
    # injections
    datarows = [i for i, t in enumerate(texts) if t is not None]
    b.injected = []
    for inj in spec.get('inj', [])[:2]:
        r_, c_, kind, a = (list(inj) + [0, 0, 0, 0])[:4]
        ri = datarows[r_ % len(datarows)]
        its = texts[ri]
        cj = c_ % len(its)
        if has_id and cj == 0:
            continue
        if pk is not None and cj < ncols and names[cj] in ('MDV', 'EVID', 'AMT'):
            continue
        kind %= 6
        if kind <= 2:
            its[cj] = TEXTS[a % len(TEXTS)] if a % 11 else LONGTEXT
            b.injected.append('text')
        else:
            its[cj] = render_long(20 + kind, a)
            b.injected.append(f'len{20 + kind}')
    # first data row at least as long as the others
    if spec.get('first', 0) % 2 == 0:
        m = max(len(texts[i]) for i in datarows)
        f = texts[datarows[0]]
        while len(f) < m:
            f.append(str(len(f) % 10))
    # lines
    b.err = spec.get('err', 0) % 6

    def render():
        comment_lead = ic if ic not in (None, '@') else '#'
        lines = []
        if spec.get('header', 0) % 2:
            lines.append(','.join(names))
        for r, its, t in zip(rows, texts, kinds):
            if t == 0:
                lines.append(_render_row(its, r))
            elif t == 1:
                body = ['comment 1,2 \t3', 'x', '', ' 1 2 3', ',,.'][r.get('lead', 0) % 5]
                if ic == '@':
                    lines.append(['', ' ', '\t', '  '][r.get('trail', 0) % 4] + ['T', 'a', '#', 'Z9'][r.get('step', 0) % 4] + body)
                else:
                    lines.append(comment_lead + body)
            else:
                lines.append('#' + ['', ' note', '1,2,3'][r.get('lead', 0) % 3])
        err = spec.get('err', 0) % 6
        pos = spec.get('errpos', 0)
        if err == 1:
            lines.insert(pos % (len(lines) + 1), '')
        elif err == 2:
            lines.insert(pos % (len(lines) + 1), [' ', '   ', '\t', '\t\t'][pos % 4])
        elif err == 3:
            i = pos % len(lines)
            ln = lines[i]
            if '\t' in ln[1:]:
                k = ln.index('\t', 1)
                lines[i] = ln[:k] + ' ' + ln[k:]
            else:
                lines[i] = ln.rstrip(' ,') + ' \t1'
        nl = bool(spec.get('nl', True))
        text = '\n'.join(lines) + ('\n' if nl else '')
        if err == 4:
            text = '\n'.join(lines) + '\n\n'
        elif err == 5:
            text = '\n'.join(lines) + '\n' + ['  ', ' ', '\t', ' \t'][pos % 4]
        return text

    def pick_filters(text):
        """filters only on named columns every data row really has, never on NULL items"""
        flt = spec.get('filters') or {}
        items = list(flt.get('items', []))[:3]
        if not items:
            return []
        try:
            scanned = nmdata.scan(text, ic)
        except (nmdata.DataError, nmdata.Unspecified):
            return []
        if not scanned:
            return []
        width = min(len(r) for r in scanned)
        safe = [j for j in range(min(width, ncols)) if not names[j].startswith('_DROP') and all(not nmdata.is_null(r[j]) for r in scanned)]
        out = []
        for f in items:
            c, op, val, quote, sp = (list(f) + [0, 0, 0, 0, 0])[:5]
            if not safe:
                break
            j = safe[c % len(safe)]
            opn = forced.get(len(out), OPS[op % len(OPS)])
            colitems = [r[j] for r in scanned if r[j] != MISSING_TOKEN]
            if opn in TEXT_OPS:
                cand = [x for x in colitems if len(x) <= 12 and (nmdata._WORD.match(x) or nmdata._PLAIN_NUMBER.match(x))]
                pool = cand + [str(val % 10), 'abc']
                value = pool[val % len(pool)]
            else:
                # boundary values: a number written in the column (when it is a plain number)
                cand = [x for x in colitems if len(x) <= 12 and nmdata._PLAIN_NUMBER.match(x)]
                pool = [str(val % 10), f'{val % 10}.5', f'-{val % 3}', f'{val % 10}.0', f'{val % 5}E0'] + cand + cand
                value = pool[val % len(pool)]
            # which written name: the column name or (for synonyms) the other name
            written = names[j]
            others = [k for k, v in alias.items() if v == names[j] and k != names[j]]
            if others and sp % 2:
                written = others[0]
            out.append(dict(col=written, op=opn, value=value, quote=quote % 3, sp=sp % 4, j=j))
        return out[:1] if flt.get('accept') else out

    forced = {}
    text = render()
    filters = pick_filters(text)
    # the missing data token (-99) in a filtered column, else in any parsed column
    b.missing = []
    for m_ in list(spec.get('miss', []))[:2]:
        r_, k_, f_ = (list(m_) + [0, 0, 0])[:3]
        its = texts[datarows[r_ % len(datarows)]]
        j = filters[k_ % len(filters)]['j'] if filters else k_ % len(its)
        if filters and f_ % 2:
            forced[k_ % len(filters)] = ['.GT.', '>', '.GE.', '>=', '.NEN.', '.EQN.', '.GT.', '>='][f_ // 2 % 8]
        if j >= len(its) or (has_id and j == 0):
            continue
        if pk is not None and j < ncols and names[j] in ('MDV', 'EVID', 'AMT'):
            continue
        its[j] = MISSING_TOKEN
        b.missing.append(j)
    if b.missing or forced:
        text = render()
        filters = pick_filters(text)
    b.text = text
    b.ignore, b.accept = ([], filters) if (spec.get('filters') or {}).get('accept') else (filters, [])
    b.style = spec.get('style', 0)
    return b


def filter_text(f, compact=False):
    q = ['', "'", '"'][f['quote']]
    v = q + f['value'] + q
    if compact:
        return f"{f['col']}{f['op']}{v}"
    sp = f['sp']
    a = ' ' if sp in (1, 3) else ''
    c = ' ' if sp in (2, 3) else ''
    return f"{f['col']}{a}{f['op']}{c}{v}"


def data_options(b):
    """-> text of the options after the file name in $DATA (filters keep their order)"""
    st_ = b.style
    simple = []
    if b.ic is not None:
        kw = ['IGNORE', 'IGNORE', 'IGN', 'IGNOR'][st_ % 4]
        c = b.ic
        if (st_ // 4) % 3 == 1:
            c = f"'{c}'"
        elif (st_ // 4) % 3 == 2:
            c = f'"{c}"'
        simple.append(f'{kw}={c}')
    if b.null is not None:
        simple.append(f"{['NULL', 'NUL'][st_ % 2]}={b.null}")
    lists = []
    flts = b.ignore or b.accept
    if flts:
        if b.accept:
            kw = ['ACCEPT', 'ACCEPT', 'ACC', 'ACCEP'][(st_ // 2) % 4]
        else:
            kw = ['IGNORE', 'IGNORE', 'IGN', 'IGNO'][(st_ // 2) % 4]
        eq = '=' if (st_ // 8) % 4 else ' '
        layout = (st_ // 16) % 4
        if layout == 0:
            lists.append(f"{kw}{eq}({','.join(filter_text(f) for f in flts)})")
        elif layout == 1:
            lists.append(f"{kw}{eq}({' , '.join(filter_text(f) for f in flts)})")
        elif layout == 2:
            for f in flts:
                lists.append(f'{kw}{eq}({filter_text(f)})')
        else:
            # documented multi-line form (docs/NONMEM.rst "options parsing")
            toks = []
            for k, f in enumerate(flts):
                q = ['', "'", '"'][f['quote']]
                if k:
                    toks.append(',')
                toks.extend([f['col'], f['op'] + q + f['value'] + q])
            lists.append(f'{kw}=(\n      ' + '\n      '.join(toks) + '\n      )')
    parts = lists + simple if (st_ // 32) % 2 else simple + lists
    return ' '.join(parts)


def input_text(entries):
    return ' '.join(k if v is None else f'{k}={v}' for k, v in entries)


# ----------------------------------------------------------------------------------------
# data frames for the write/read round trip

FSPECIAL = [float('nan'), -0.0, 5e-324, 2.2250738585072014e-308, 1.7976931348623157e308, -99.0, 0.1, 1e-310, 1e22, 1e16, 123456789012345678.0, 99.0, -99.5, 1 / 3]
NAME1 = 'ABCGHKMNQRSUVWXZ'
NAME2 = 'ABCDEFGHIJKLMNOPQRSTUVWXYZ0123456789_'
FORBIDDEN = set(nmdata.RESERVED) | {'DROP', 'SKIP', 'DVID', 'BLQ', 'LLOQ', 'Y', 'F', 'THETA', 'ETA', 'EPS', 'ERR', 'A', 'T', 'S1', 'W', 'RES', 'WRES', 'PRED', 'IPRED', 'NEWIND', 'ICALL', 'MIXNUM', 'MIXEST', 'COM', 'G', 'H', 'R', 'S0', 'CL', 'V', 'K', 'NONE', 'NA', 'NAN', 'INF', 'NULL', 'TRUE', 'FALSE', 'MU_1'}

CELL = st.one_of(
    st.tuples(st.just('i'), st.integers(-1000, 1000)),
    st.tuples(st.just('s'), st.integers(0, len(FSPECIAL) - 1)),
    st.tuples(st.just('b'), st.integers(0, 2**64 - 1)),
    st.tuples(st.just('f'), st.floats(allow_nan=False, allow_infinity=False, width=64)),
    st.tuples(st.just('d'), st.integers(-10**6, 10**6), st.integers(0, 6)),
).map(list)
FCOL = st.fixed_dictionaries(
    dict(
        name=st.lists(st.integers(0, 36), min_size=1, max_size=8),
        int=st.sampled_from([False, False, True]),
        big=st.booleans(),
        cells=st.lists(CELL, min_size=1, max_size=8),
    )
)
FRAMESPEC = st.fixed_dictionaries(
    dict(
        cols=st.one_of(st.lists(FCOL, min_size=1, max_size=6), st.lists(FCOL, min_size=7, max_size=30)),
        nrows=st.integers(1, 8),
        id=st.sampled_from([0, 1, 1, 2]),
        dv=st.booleans(),
        how=st.integers(0, 2),
        input=st.integers(0, 15),
        steps=st.lists(st.integers(0, 2), min_size=8, max_size=8),
        # history of the model the frame is attached to (see c13.run_roundtrip)
        hist=st.sampled_from([0, 0, 0, 1, 2, 3, 4, 5, 6]),
        order=st.integers(0, 2),
        fcol=st.integers(0, 29),
        mod=st.sampled_from([0, 0, 1]),
    )
)


def cell_value(c, as_int=False, big=False):
    c = list(c) + [0, 0]
    k = c[0]
    if as_int:
        v = c[1] if isinstance(c[1], int) else 0
        if k == 'b':
            v = v % (2**54) - 2**53 if big else v % 2001 - 1000
        v = int(v)
        if v == -99:
            v = -98  # the missing data token is not a value
        return v
    if k == 'i':
        return float(c[1]) if isinstance(c[1], (int, float)) else 0.0
    if k == 's':
        return FSPECIAL[int(c[1]) % len(FSPECIAL)] if isinstance(c[1], int) else 0.0
    if k == 'b':
        bits = int(c[1]) % 2**64 if isinstance(c[1], int) else 0
        v = struct.unpack('<d', struct.pack('<Q', bits))[0]
        if v != v or v in (float('inf'), float('-inf')):
            return float('nan')
        return v
    if k == 'f':
        v = float(c[1]) if isinstance(c[1], (int, float)) else 0.0
        if v != v or v in (float('inf'), float('-inf')):
            return float('nan')
        return v
    if k == 'd':
        try:
            return int(c[1]) / 10 ** (int(c[2]) % 7)
        except Exception:
            return 0.0
    return 0.0


def build_frame(spec):
    """-> (names, columns) where columns are lists of python ints / floats (NaN = missing)."""
    nrows = max(1, min(8, int(spec.get('nrows', 1) or 1)))
    cols = list(spec.get('cols', []))[:30] or [dict(name=[0], int=False, cells=[['i', 1]])]
    names, data = [], []
    used = set()
    idmode = spec.get('id', 0) % 3  # 0 no ID, 1 ID first, 2 ID somewhere else
    for k, c in enumerate(cols):
        idx = list(c.get('name', [0]))[:8] or [0]
        nm = NAME1[idx[0] % len(NAME1)] + ''.join(NAME2[i % len(NAME2)] for i in idx[1:])
        base, n = nm[:5], 0
        while nm in used or nm in FORBIDDEN:
            nm = f'{base}{n}'
            n += 1
        used.add(nm)
        cells = list(c.get('cells', [])) or [['i', 0]]
        as_int = bool(c.get('int'))
        vals = [cell_value(cells[r % len(cells)], as_int, bool(c.get('big'))) for r in range(nrows)]
        names.append(nm)
        data.append(vals)
    if spec.get('dv') and 'DV' not in names and len(names) >= 2:
        names[-1] = 'DV'
    if idmode:
        steps = list(spec.get('steps', [])) + [0] * 8
        v, ids = 1, []
        for r in range(nrows):
            v += steps[r] % 3 if r else 0
            ids.append(v)
        j = 0 if idmode == 1 else len(names) // 2
        if names[j] == 'DV':
            j = 0
        names[j] = 'ID'
        data[j] = ids
    return names, data
