"""$THETA / $OMEGA / $SIGMA record layouts: JSON spec -> record text + expected meaning.

The expected meaning is computed from the numbers *as printed* (float of each spelled
token), so no rounding enters the oracle.  No pharmpy import.
"""

from __future__ import annotations

import math

from hypothesis import strategies as st

INF = float('inf')

# value spellings: (float value, text)
VALS = [
    (0.1, '0.1'), (0.1, '.1'), (0.1, '1E-1'), (0.2, '0.2'), (0.25, '0.25'), (0.3, '.3'), (0.5, '0.5'), (0.5, '5.0E-01'),
    (0.75, '0.75'), (1.0, '1'), (1.0, '1.0'), (1.5, '1.5'), (2.0, '2'), (2.0, '2.'), (3.0, '3.00'), (4.5, '4.5'), (10.0, '10'),
    (12.5, '1.25E1'), (0.04, '0.04'), (0.09, '0.09'), (0.0225, '0.0225'), (0.01, '0.01'),
]

THETA_ITEM = st.fixed_dictionaries(
    dict(
        form=st.integers(0, 11),
        v=st.integers(0, len(VALS) - 1),
        lo=st.integers(0, 6),
        up=st.integers(0, 6),
        rep=st.integers(2, 3),
        name=st.integers(0, 3),
        nl=st.booleans(),
    )
)

THETA_LAYOUT = st.lists(THETA_ITEM, min_size=1, max_size=6)


def theta_item(it):
    """-> (text, [dict(init, lower, upper, fix)] (len = repeats))"""
    v, sp = VALS[it['v'] % len(VALS)]
    form = it['form'] % 12
    lo_d = [0.0, 0.5, 0.9, 1.0][it['lo'] % 4]  # lower = init - lo_d*|init|... keep simple: fraction below
    up_d = [0.5, 1.0, 9.0, 100.0][it['up'] % 4]
    lo = v - lo_d * abs(v) - (0.0 if lo_d else 0.0)
    if lo_d == 0.0:
        lo = 0.0 if v > 0 else v - 1.0
    up = v + up_d * abs(v)
    lo_s = _fmt(lo)
    up_s = _fmt(up)
    lo = float(lo_s)
    up = float(up_s)
    one = dict(init=v, lower=-INF, upper=INF, fix=False)
    rep = 1
    if form == 0:
        txt = sp
    elif form == 1:
        txt = f'{sp} FIX'
        one['fix'] = True
    elif form == 2:
        txt = f'({sp})'
    elif form == 3:
        txt = f'({lo_s},{sp})'
        one['lower'] = lo
    elif form == 4:
        txt = f'({lo_s}, {sp}, {up_s})'
        one['lower'], one['upper'] = lo, up
    elif form == 5:
        txt = f'({sp} FIX)'
        one['fix'] = True
    elif form == 6:
        txt = f'({sp}) FIXED'
        one['fix'] = True
    elif form == 7:
        rep = it['rep']
        txt = f'({sp})x{rep}'
    elif form == 8:
        rep = it['rep']
        txt = f'({lo_s},{sp},{up_s})x{rep}'
        one['lower'], one['upper'] = lo, up
    elif form == 9:
        txt = f'(-INF,{sp},INF)'
    elif form == 10:
        txt = f'({lo_s} {sp} {up_s})'  # blanks as separators
        one['lower'], one['upper'] = lo, up
    else:
        txt = f'({lo_s},{sp},1000000)'
        one['lower'] = lo
    return txt, [dict(one) for _ in range(rep)]


def _fmt(x):
    s = f'{x:.6g}'
    return s


def render_thetas(layout, per_record=3, names=True):
    """-> (list of record texts, list of expected thetas)"""
    recs = []
    exp = []
    cur = []
    for i, it in enumerate(layout[:6]):
        txt, ones = theta_item(it)
        if len(exp) + len(ones) > 8:
            break
        if names and it['name'] % 4 == 1 and len(ones) == 1:
            txt += f' ; TH{len(exp) + 1}'
            nl = True
        else:
            nl = it['nl']
        cur.append(txt + ('\n' if nl else ' '))
        exp += ones
        if len(cur) >= per_record:
            recs.append('$THETA ' + ''.join(cur).rstrip(' '))
            cur = []
    if cur:
        recs.append('$THETA ' + ''.join(cur).rstrip(' '))
    recs = [r if r.endswith('\n') else r + '\n' for r in recs]
    return recs, exp


# ------------------------------------------------------------------------------------------
# $OMEGA / $SIGMA

OMEGA_ITEM = st.fixed_dictionaries(
    dict(
        kind=st.integers(0, 9),  # 0-3 diag forms, 4-7 block forms, 8 same, 9 values
        n=st.integers(1, 3),
        d=st.lists(st.integers(0, 7), min_size=3, max_size=3),
        o=st.lists(st.integers(0, 8), min_size=3, max_size=3),
        scale=st.integers(0, 5),
        fix=st.booleans(),
        optpos=st.integers(0, 2),
        rep=st.integers(2, 3),
        nl=st.booleans(),
        name=st.booleans(),
    )
)
OMEGA_LAYOUT = st.lists(OMEGA_ITEM, min_size=1, max_size=4)

DIAGS = [(0.04, '0.04'), (0.09, '0.09'), (0.1, '0.1'), (0.25, '.25'), (0.5, '0.5'), (1.0, '1'), (0.0225, '2.25E-2'), (0.3, '0.3')]
# off-diagonal entries as correlations (kept modest so blocks stay PD with margin after rounding)
CORRS = [(0.0, '0'), (0.1, '0.1'), (-0.1, '-0.1'), (0.3, '0.3'), (-0.3, '-0.3'), (0.5, '0.5'), (-0.45, '-0.45'), (0.2, '.2'), (-0.2, '-.2')]


def _sym(n, tri):
    M = [[0.0] * n for _ in range(n)]
    k = 0
    for a in range(n):
        for b in range(a + 1):
            M[a][b] = M[b][a] = tri[k]
            k += 1
    return M


def omega_item(it, prev_block_size=None, max_n=4):
    """-> (record body text, parsed-meaning dict like ref.nmtran.parse_omega_record) or None"""
    kind = it['kind'] % 10
    n = max(1, min(it['n'], max_n))
    if kind <= 3:
        # diagonal record with n items
        toks = []
        diag = []
        fixes = []
        for a in range(n):
            v, sp = DIAGS[it['d'][a] % len(DIAGS)]
            f = it['fix'] and a == 0
            sd = kind == 2 and a == n - 1
            if kind == 3 and a == 0:
                r = it['rep']
                if len(diag) + r > max_n:
                    r = 1
                toks.append(f'({sp})x{r}' if r > 1 else f'({sp})')
                diag += [v] * r
                fixes += [False] * r
                continue
            if sd:
                t = f'({sp} SD)' if it['optpos'] % 2 == 0 else f'(SD {sp})'
                val = v * v
                if f:
                    t = f'({sp} SD FIX)'
            elif f:
                t = [f'{sp} FIX', f'({sp} FIX)', f'(FIXED {sp})'][it['optpos'] % 3]
                val = v
            else:
                t = sp
                val = v
            toks.append(t)
            diag.append(val)
            fixes.append(f)
        head = f'DIAGONAL({len(diag)}) ' if kind == 1 and kind != 3 and all('x' not in t for t in toks) else ''
        sep = '\n' if it['nl'] else ' '
        return head + sep.join(toks), dict(kind='diag', size=len(diag), diag=diag, fix=fixes)
    if kind == 8:
        if prev_block_size is None:
            return None
        form = it['optpos'] % 3
        if form == 0:
            return f'BLOCK({prev_block_size}) SAME', dict(kind='same', size=prev_block_size, nsame=1)
        if form == 1:
            return 'BLOCK SAME', dict(kind='same', size=None, nsame=1)
        m = it['rep']
        return f'BLOCK({prev_block_size}) SAME({m})', dict(kind='same', size=prev_block_size, nsame=m)
    n = max(2, n) if kind != 9 else max(2, n)
    n = min(n, max_n)
    if n < 2:
        n = 1
    if kind == 9:
        d, dsp = DIAGS[it['d'][0] % len(DIAGS)]
        c, _ = CORRS[it['o'][0] % len(CORRS)]
        o = round(c * d * 0.5, 6)
        osp = repr(o)
        tri = []
        for a in range(n):
            for b in range(a + 1):
                tri.append(d if a == b else float(osp))
        txt = f'BLOCK({n}) VALUES({dsp},{osp})' + (' FIX' if it['fix'] else '')
        return txt, dict(kind='block', size=n, matrix=_sym(n, tri), fix=it['fix'])
    # block with explicit values in one of the scales
    scale = it['scale'] % 6  # 0 var/cov, 1 SD (sd + cov), 2 SD CORR, 3 VAR CORR, 4 CHOLESKY, 5 var/cov explicit words
    ds = [DIAGS[it['d'][a % 3] % len(DIAGS)] for a in range(n)]
    cs = {}
    k = 0
    for a in range(n):
        for b in range(a):
            cs[(a, b)] = CORRS[it['o'][k % 3] % len(CORRS)]
            k += 1
    toks = []
    vals = []
    for a in range(n):
        row = []
        for b in range(a + 1):
            if a == b:
                v, sp = ds[a]
                if scale == 4:
                    pass
                row.append((v, sp))
            else:
                c, csp = cs[(a, b)]
                if scale in (2, 3):
                    row.append((c, csp))
                elif scale == 4:
                    # Cholesky factor entries: small off-diagonals
                    v = round(c * 0.3, 6)
                    row.append((v, repr(v)))
                else:
                    # covariance spelled with 6 significant digits
                    da, db = ds[a][0], ds[b][0]
                    if scale == 1:
                        v = float(f'{c * da * db:.6g}')
                    else:
                        v = float(f'{c * math.sqrt(da * db):.6g}')
                    row.append((v, f'{v:.6g}'))
        vals.append(row)
        toks.append(' '.join(sp for _, sp in row))
    L = [[vals[a][b][0] if b <= a else 0.0 for b in range(n)] for a in range(n)]
    if scale == 4:
        M = [[sum(L[a][c] * L[b][c] for c in range(n)) for b in range(n)] for a in range(n)]
    else:
        M = [[L[max(a, b)][min(a, b)] for b in range(n)] for a in range(n)]
        d = [M[a][a] for a in range(n)]
        sd = scale in (1, 2)
        corr = scale in (2, 3)
        sdv = [x if sd else math.sqrt(x) for x in d]
        for a in range(n):
            for b in range(n):
                if a != b and corr:
                    M[a][b] = M[a][b] * sdv[a] * sdv[b]
        for a in range(n):
            M[a][a] = d[a] ** 2 if sd else d[a]
    words = {0: '', 1: 'STANDARD', 2: 'SD CORRELATION', 3: 'VARIANCE CORRELATION', 4: 'CHOLESKY', 5: 'VARIANCE COVARIANCE'}[scale]
    fixw = 'FIX' if it['fix'] else ''
    pos = it['optpos'] % 3
    body = ('\n' if it['nl'] else ' ').join(toks)
    if pos == 0:
        txt = f'BLOCK({n}) {words} {fixw}\n{body}'
    elif pos == 1:
        txt = f'{words} BLOCK({n}) {fixw}\n{body}'
    else:
        txt = f'BLOCK({n}) {fixw} {words}\n{body}'
    txt = ' '.join(txt.split(' ')).replace('  ', ' ')
    return txt, dict(kind='block', size=n, matrix=M, fix=it['fix'])


def is_pd(M, margin=1e-6):
    """Cholesky with margin (pure python)"""
    n = len(M)
    L = [[0.0] * n for _ in range(n)]
    scale = max(abs(M[a][a]) for a in range(n)) or 1.0
    for i in range(n):
        for j in range(i + 1):
            s = M[i][j] - sum(L[i][k] * L[j][k] for k in range(j))
            if i == j:
                if s <= margin * scale:
                    return False
                L[i][j] = math.sqrt(s)
            else:
                L[i][j] = s / L[j][j]
    return True


def render_omegas(layout, record='OMEGA', max_total=5, values_ok=True):
    """-> (record texts, parsed meanings). Records that would exceed max_total etas or that are
    not PD with margin are skipped (by construction, counted by the caller via len)."""
    recs = []
    meanings = []
    total = 0
    prev_block = None
    for it in layout[:4]:
        if not values_ok and it['kind'] % 10 == 9:
            it = dict(it, kind=4)
        r = omega_item(it, prev_block_size=prev_block, max_n=min(3, max_total - total))
        if r is None:
            continue
        txt, m = r
        if m['kind'] == 'same':
            size = prev_block * m['nsame']
        else:
            size = m['size']
        if size <= 0 or total + size > max_total:
            continue
        if m['kind'] == 'block' and not is_pd(m['matrix']):
            continue
        if m['kind'] == 'block':
            prev_block = m['size']
        elif m['kind'] == 'diag':
            prev_block = None
        name = ' ; IIV' + str(total + 1) if it['name'] and m['kind'] == 'diag' and m['size'] == 1 else ''
        recs.append(f'${record} {txt}{name}\n')
        meanings.append(m)
        total += size
    return recs, meanings, total
