"""Generator of MFL strings.

A *space spec* is JSON:  {'st': [stmt, ...], 'fmt': [int, ...]}  with
stmt = {'k': kind, 'a': [int], 'b': [int], 'c': [int], 'f': flags}.  `render(spec)` is total:
every index is taken modulo the size of its universe, missing list entries default, so any
structurally shrunk spec still renders to a string of the grammar in tools/mfl/grammar.py.

`direct_space(spec)` computes the denoted space directly from the spec (used only by the
oracle self-check to cross-examine the reference string parser in pv/ref/mflset.py).
"""

from __future__ import annotations

from hypothesis import strategies as st

KINDS = (
    'ABSORPTION', 'ELIMINATION', 'LAGTIME', 'TRANSITS', 'PERIPHERALS', 'COVARIATE',
    'DIRECTEFFECT', 'EFFECTCOMP', 'INDIRECTEFFECT', 'METABOLITE', 'LET', 'ALLOMETRY',
)
K = {name: i for i, name in enumerate(KINDS)}
UNIVERSE = {
    'ABSORPTION': ('FO', 'ZO', 'SEQ-ZO-FO', 'INST'),
    'ELIMINATION': ('FO', 'ZO', 'MM', 'MIX-FO-MM'),
    'LAGTIME': ('ON', 'OFF'),
    'DIRECTEFFECT': ('LINEAR', 'EMAX', 'SIGMOID'),
    'EFFECTCOMP': ('LINEAR', 'EMAX', 'SIGMOID'),
    'METABOLITE': ('PSC', 'BASIC'),
}
DEPOT = ('DEPOT', 'NODEPOT')
PMODES = ('DRUG', 'MET')
LAGTIME_MODES = ('ON', 'OFF')
PRODUCTION = ('PRODUCTION', 'DEGRADATION')
PDTYPE = ('LINEAR', 'EMAX', 'SIGMOID')
FP = ('EXP', 'POW', 'LIN', 'PIECE_LIN', 'CAT', 'CAT2', 'CUSTOM')
FP_WILD = ('LIN', 'PIECE_LIN', 'EXP', 'POW')
PARAMS = ('CL', 'VC', 'MAT', 'KA', 'QP1')
COVS = ('WGT', 'AGE', 'SEX', 'CRCL')
LETNAMES = ('MYP', 'MYC', 'X_Y')  # defined by LET statements
AUTOREFS = ('IIV', 'CONTINUOUS', 'CATEGORICAL', 'ELIMINATION')  # automatic symbols (need a model)
ALLO_REFS = ('70', '70.5', '1', '3.25')

# flag bits
F_WILD = 1  # first option is '*'  (COVARIATE: effects are '*')
F_BRACKET = 2  # a single value is written as a one element array
F_RANGE = 4  # counts written as a..b
F_NO2 = 8  # optional second argument omitted / second option '*' for INDIRECTEFFECT
F_OPT = 16  # COVARIATE?
F_OP1 = 32  # operator given explicitly ...
F_OP2 = 64  # ... and it is '+'
F_PREF = 128  # parameter is @ref
F_CREF = 256  # covariate is @ref
F_PWILD = 512  # parameter is '*'
F_CWILD = 1024  # covariate is '*'
F_WILD2 = 2048  # second option (depot / peripheral kind) is '*'
F_AUTOREF = 4096  # references name automatic symbols (@IIV, ...) instead of LET names


def _ints(x):
    return [v for v in x if isinstance(v, int) and not isinstance(v, bool)] if isinstance(x, list) else []


def _norm(stmt):
    if not isinstance(stmt, dict):
        stmt = {}
    k = stmt.get('k', 0)
    f = stmt.get('f', 0)
    return (
        KINDS[(k if isinstance(k, int) else 0) % len(KINDS)],
        _ints(stmt.get('a', [])) or [0],
        _ints(stmt.get('b', [])) or [0],
        _ints(stmt.get('c', [])) or [0],
        f if isinstance(f, int) else 0,
    )


def _pick(univ, idx):
    return [univ[i % len(univ)] for i in idx]


def _counts(a, f):
    """-> (list of ints, text)"""
    if f & F_RANGE:
        lo = a[0] % 4
        hi = lo + (a[1] % 4 if len(a) > 1 else 1)
        return list(range(lo, hi + 1)), f'{lo}..{hi}'
    vals = [v % 6 for v in a[:4]]
    if len(vals) == 1 and not f & F_BRACKET:
        return vals, str(vals[0])
    return vals, '[' + ','.join(map(str, vals)) + ']'


def _opts(univ, idx, f, wildbit=F_WILD):
    """-> (list of names, text)"""
    if f & wildbit:
        return list(univ), '*'
    vals = _pick(univ, idx[:4])
    if len(vals) == 1 and not f & F_BRACKET:
        return vals, vals[0]
    return vals, '[' + ','.join(vals) + ']'


def describe(stmt):
    """-> dict(kind=..., text=[tokens...], atoms=set(), meta...) ; text is a token list so that
    the formatter can vary case and spacing"""
    kind, a, b, c, f = _norm(stmt)
    d = dict(kind=kind, optional=False)
    if kind in UNIVERSE:
        vals, txt = _opts(UNIVERSE[kind], a, f)
        d.update(args=[txt], atoms={(kind, v) for v in vals}, wild=bool(f & F_WILD))
    elif kind == 'TRANSITS':
        cnt, ctxt = _counts(a, f)
        if f & F_NO2:
            dep, args = ['DEPOT'], [ctxt]
        else:
            dep, dtxt = _opts(DEPOT, b, f, F_WILD2)
            args = [ctxt, dtxt]
        d.update(args=args, atoms={(kind, n, x) for n in cnt for x in dep}, wild=bool(f & F_WILD2) and not f & F_NO2, range=bool(f & F_RANGE))
    elif kind == 'PERIPHERALS':
        cnt, ctxt = _counts(a, f)
        if f & F_NO2:
            modes, args = ['DRUG'], [ctxt]
        else:
            modes, mtxt = _opts(PMODES, b, f, F_WILD2)
            args = [ctxt, mtxt]
        d.update(args=args, atoms={(kind, n, x) for n in cnt for x in modes}, wild=bool(f & F_WILD2) and not f & F_NO2, range=bool(f & F_RANGE))
    elif kind == 'INDIRECTEFFECT':
        modes, mtxt = _opts(PDTYPE, a, f)
        if f & F_NO2:
            prod, ptxt = list(PRODUCTION), '*'
        else:
            prod = _pick(PRODUCTION, b[:1])
            ptxt = prod[0]
        d.update(args=[mtxt, ptxt], atoms={(kind, m, p) for m in modes for p in prod}, wild=bool(f & (F_WILD | F_NO2)))
    elif kind == 'LET':
        name = LETNAMES[a[0] % len(LETNAMES)]
        univ = PARAMS if a[0] % len(LETNAMES) != 1 else COVS
        vals = _pick(univ, b[:3])
        txt = vals[0] if len(vals) == 1 and not f & F_BRACKET else '[' + ','.join(vals) + ']'
        d.update(args=[name, txt], atoms=set(), let=(name, vals), wild=False)
    elif kind == 'ALLOMETRY':
        cov = COVS[a[0] % len(COVS)]
        if f & F_NO2:
            d.update(args=[cov], atoms={(kind, cov, 70.0)}, wild=False, no_reference=True)
        else:
            r = ALLO_REFS[b[0] % len(ALLO_REFS)]
            d.update(args=[cov, r], atoms={(kind, cov, float(r))}, wild=False)
    else:  # COVARIATE
        refnames = AUTOREFS if f & F_AUTOREF else LETNAMES
        if f & F_PWILD:
            par, ptxt, pk = ['*'], '*', 'wild'
        elif f & F_PREF:
            nm = refnames[a[0] % len(refnames)]
            par, ptxt, pk = [nm], '@' + nm, 'ref'
        else:
            par = _pick(PARAMS, a[:3])
            ptxt = par[0] if len(par) == 1 and not f & F_BRACKET else '[' + ','.join(par) + ']'
            pk = 'names'
        if f & F_CWILD:
            cov, ctxt, ck = ['*'], '*', 'wild'
        elif f & F_CREF:
            nm = refnames[(b[0] + 1) % len(refnames)]
            cov, ctxt, ck = [nm], '@' + nm, 'ref'
        else:
            cov = _pick(COVS, b[:3])
            ctxt = cov[0] if len(cov) == 1 and not f & F_BRACKET else '[' + ','.join(cov) + ']'
            ck = 'names'
        fps, ftxt = (list(FP_WILD), '*') if f & F_WILD else _opts(FP, c, f & ~F_WILD)
        op = '*'
        args = [ptxt, ctxt, ftxt]
        if f & F_OP1:
            op = '+' if f & F_OP2 else '*'
            args.append(op)
        d.update(
            args=args, optional=bool(f & F_OPT), cov=dict(parameter=(pk, par), covariate=(ck, cov), fp=fps, op=op),
            wild=bool(f & (F_WILD | F_PWILD | F_CWILD)), symbolic=pk != 'names' or ck != 'names',
            autoref=bool(f & F_AUTOREF) and (pk == 'ref' or ck == 'ref'), atoms=set(),
        )
    return d


def _case(tok, mode):
    if mode == 1:
        return tok.lower()
    if mode == 2:
        return ''.join(ch.lower() if i % 2 else ch.upper() for i, ch in enumerate(tok))
    return tok


def render(spec, plain=False):
    """spec -> MFL string.  fmt drives case of feature names / option tokens, blanks and the
    statement separator; LET names and references keep their case (variable names are not
    documented to be case insensitive)."""
    sts = spec.get('st', []) if isinstance(spec, dict) else []
    fmt = _ints(spec.get('fmt', [])) if isinstance(spec, dict) else []
    if plain or not fmt:
        fmt = [0]
    pos = [0]

    def nxt():
        v = fmt[pos[0] % len(fmt)]
        pos[0] += 1
        return v

    parts = []
    for s in sts if isinstance(sts, list) else []:
        d = describe(s)
        name = _case(d['kind'], nxt() % 3) + ('?' if d['optional'] else '')
        args = []
        for i, a in enumerate(d['args']):
            keep = (d['kind'] == 'LET' and i == 0) or d['kind'] == 'ALLOMETRY'
            if a.startswith('@') or keep:
                args.append(a)
            else:
                args.append(_case(a, nxt() % 3))
        sp = nxt() % 4
        if sp == 0:
            txt = f'{name}({",".join(args)})'
        elif sp == 1:
            txt = f'{name}({", ".join(args)})'
        elif sp == 2:
            txt = f'{name} ( {" , ".join(args)} )'.replace('[', '[ ').replace(']', ' ]')
        else:
            txt = f' {name}({",".join(args)}) '
        parts.append(txt)
    out = ''
    for i, p in enumerate(parts):
        if i:
            out += '\n' if nxt() % 3 == 1 else ';'
        out += p
    return out


def direct_space(spec):
    """space denoted by the spec, computed without going through the string (no defaults)."""
    cats = {}
    let = {}
    ds = [describe(s) for s in spec.get('st', [])]
    for d in ds:
        if d['kind'] == 'LET':
            let[d['let'][0]] = d['let'][1]
    for d in ds:
        kind = d['kind']
        if kind == 'LET':
            continue
        if kind == 'ALLOMETRY':
            cats[kind] = set(d['atoms'])
            continue
        if kind == 'COVARIATE':
            cv = d['cov']

            def res(x):
                typ, vals = x
                if typ == 'ref':
                    return list(let[vals[0]]) if vals[0] in let else ['@' + vals[0]]
                return vals

            atoms = {(kind, p, c, fp, cv['op'], d['optional']) for p in res(cv['parameter']) for c in res(cv['covariate']) for fp in cv['fp']}
        else:
            atoms = d['atoms']
        cats.setdefault(kind, set()).update(atoms)
    return {k: frozenset(v) for k, v in cats.items()}


# ------------------------------------------------------------------------------------------
# strategies

_idx = st.lists(st.integers(0, 7), min_size=1, max_size=4)


def stmt(kinds, flags):
    return st.fixed_dictionaries(dict(k=st.sampled_from([K[x] for x in kinds]), a=_idx, b=_idx, c=_idx, f=flags))


def _flagset(bits, always=0):
    """strategy of ints; bits = sequence of (bit, k): the bit is set with probability 1/k"""
    bits = [(b, 3) if isinstance(b, int) else b for b in bits]
    return st.tuples(*[st.integers(0, k - 1) for _, k in bits]).map(lambda xs: always | sum(b for (b, _), x in zip(bits, xs) if x == 0))


STRUCT_KINDS = ('ABSORPTION', 'ELIMINATION', 'LAGTIME', 'TRANSITS', 'PERIPHERALS')
PD_KINDS = ('DIRECTEFFECT', 'EFFECTCOMP', 'INDIRECTEFFECT', 'METABOLITE')
FMT = st.lists(st.integers(0, 11), min_size=1, max_size=6)


def _weighted(*pairs):
    """weighted choice (one_of() collapses repeated branches, so draw the branch index)"""
    table = []
    for i, (_, w) in enumerate(pairs):
        table.extend([i] * w)
    return st.sampled_from(table).flatmap(lambda i: pairs[i][0])


def space(profile='full', min_size=1, max_size=7):
    """profiles:
    'full'     every statement kind, LET + references, automatic symbols, parameter/covariate
               wildcards and ALLOMETRY (both rare: they hit known defects of the parser)
    'algebra'  no automatic symbols, no parameter/covariate wildcards, no ALLOMETRY; '*' for the
               one-option categories and for the peripheral kind is rare (known defects of - and ==)
    'pk'       structural PK statements only
    """
    wild_k = 4 if profile == 'full' else 12
    counted = stmt(('TRANSITS', 'PERIPHERALS'), _flagset(((F_WILD2, wild_k), F_BRACKET, F_RANGE, F_NO2)))
    simple = stmt(('ABSORPTION', 'ELIMINATION', 'LAGTIME'), _flagset(((F_WILD, wild_k), F_BRACKET)))
    basic = _weighted((counted, 2), (simple, 3))
    pd = stmt(PD_KINDS, _flagset(((F_WILD, 4), F_BRACKET, (F_NO2, 4))))
    cov_plain = stmt(('COVARIATE',), _flagset((F_BRACKET, F_OP1, F_OP2)))
    cov_opt = stmt(('COVARIATE',), _flagset((F_WILD, F_BRACKET, F_OP1, F_OP2), always=F_OPT))
    cov_let = stmt(('COVARIATE',), _flagset((F_WILD, F_BRACKET, F_OP1, F_OP2, (F_PREF, 2), (F_CREF, 2)), always=F_OPT))
    let = stmt(('LET',), _flagset((F_BRACKET,)))
    if profile == 'pk':
        items = basic
        tail = st.just([])
    elif profile == 'algebra':
        items = _weighted((basic, 10), (pd, 3), (cov_plain, 1), (cov_opt, 3), (cov_let, 1))
        tail = st.lists(let, max_size=3)
    else:
        cov_sym = stmt(('COVARIATE',), _flagset((F_WILD, F_BRACKET, F_OP1, (F_PREF, 2), (F_CREF, 2), (F_PWILD, 6), (F_CWILD, 6), (F_AUTOREF, 2)), always=F_OPT))
        allo = stmt(('ALLOMETRY',), _flagset((F_NO2,)))
        items = _weighted((basic, 20), (pd, 7), (cov_plain, 2), (cov_opt, 5), (cov_let, 3), (cov_sym, 3), (let, 2), (allo, 1))
        tail = st.lists(let, max_size=2)
    return st.builds(lambda body, t, fmt: dict(st=body + t, fmt=fmt), st.lists(items, min_size=min_size, max_size=max_size), tail, FMT)


def model_features():
    """one concrete model: one feature per structural category (what get_model_features prints);
    `inn[i]` != 0 takes the feature of category i from the search space it is compared with"""
    return st.fixed_dictionaries(
        dict(
            abs=st.integers(0, 3), elim=st.integers(0, 3), lag=st.integers(0, 1), tr=st.integers(0, 4), depot=st.integers(0, 1), per=st.integers(0, 3),
            inn=st.lists(st.integers(0, 2), min_size=5, max_size=5),
        )
    )


MODEL_CATEGORIES = ('ABSORPTION', 'ELIMINATION', 'LAGTIME', 'TRANSITS', 'PERIPHERALS')


def model_atoms(m, space=None):
    """-> {category: atom}; space: optional expansion (category -> set of atoms) to draw from"""
    g = lambda k: m.get(k, 0) if isinstance(m.get(k, 0), int) and not isinstance(m.get(k, 0), bool) else 0  # noqa: E731
    own = {
        'ABSORPTION': ('ABSORPTION', UNIVERSE['ABSORPTION'][g('abs') % 4]),
        'ELIMINATION': ('ELIMINATION', UNIVERSE['ELIMINATION'][g('elim') % 4]),
        'LAGTIME': ('LAGTIME', LAGTIME_MODES[g('lag') % 2]),
        'TRANSITS': ('TRANSITS', g('tr') % 5, DEPOT[g('depot') % 2]),
        'PERIPHERALS': ('PERIPHERALS', g('per') % 4, 'DRUG'),
    }
    inn = m.get('inn', []) if isinstance(m.get('inn', []), list) else []
    idx = dict(ABSORPTION=g('abs'), ELIMINATION=g('elim'), LAGTIME=g('lag'), TRANSITS=g('tr') + 5 * g('depot'), PERIPHERALS=g('per'))
    for i, c in enumerate(MODEL_CATEGORIES):
        flag = inn[i] if i < len(inn) and isinstance(inn[i], int) else 0
        if space is not None and flag % 3 != 0:
            opts = sorted((a for a in space.get(c, ()) if c != 'PERIPHERALS' or a[2] == 'DRUG'), key=repr)
            if opts:
                own[c] = opts[idx[c] % len(opts)]
                if c == 'TRANSITS' and flag % 3 == 2:
                    # count of one feature of the space, depot of another one (may or may not be in the space)
                    own[c] = ('TRANSITS', own[c][1], opts[(idx[c] + 1 + g('lag')) % len(opts)][2])
    return own


def render_model_atoms(atoms):
    """string in the style of get_model_features(): lagtime off, 0 transits and 0 peripherals are left out"""
    parts = [f"ABSORPTION({atoms['ABSORPTION'][1]})", f"ELIMINATION({atoms['ELIMINATION'][1]})"]
    if atoms['LAGTIME'][1] == 'ON':
        parts.append('LAGTIME(ON)')
    if atoms['TRANSITS'][1] != 0:
        parts.append(f"TRANSITS({atoms['TRANSITS'][1]},{atoms['TRANSITS'][2]})")
    elif atoms['TRANSITS'][2] == 'NODEPOT':
        parts.append('TRANSITS(0,NODEPOT)')
    if atoms['PERIPHERALS'][1] != 0:
        parts.append(f"PERIPHERALS({atoms['PERIPHERALS'][1]})")
    return ';'.join(parts)
