"""Layout noise / text mutation of NM-TRAN control streams (no pharmpy import).

A mutation is a JSON list [k, a, b] of ints; `apply_ops(text, ops, pool)` applies them in
order.  Every op is total: positions are taken modulo the number of candidates and an op
without candidates leaves the text alone.

SAFE ops keep the text a valid control stream with the same meaning under NM-TRAN rules (blanks
-> tab/NUL, CR LF, comments, blank lines, record-name abbreviation/case, `&` continuation in
abbreviated code, verbatim lines, records pharmpy does not model, comment lines before the first
record).  ROUGH ops do not (delete/duplicate/swap lines, move comments, stray characters, free
text before the first record, ...): they are for the parse/print sub-checks only, which quantify
over every text the parser accepts.
"""

from __future__ import annotations

import re

from hypothesis import strategies as st

from ..ref.nmsplit import CODE_KINDS, comment_split, record_start
from ..ref.nmtran import canonical_record_name

SAFE = [
    'tab', 'nul', 'crlf', 'comment_eol', 'comment_line', 'blank_line', 'trail_ws', 'abbr', 'lower', 'cont_code',
    'verbatim', 'unmodelled_record', 'lead_comment', 'multi_est',
]
ROUGH = [
    'lead_text', 'indent', 'strip_final_nl', 'del_line', 'dup_line', 'swap_lines', 'move_comment', 'lone_cr', 'nul_any',
    'tab_any', 'del_char', 'dup_record', 'swap_records', 'foo_record', 'cont_any', 'amp_eol', 'quote_line', 'crlf_one',
    'blank_tail', 'semicolon_any',
]
ALL = SAFE + SAFE + ROUGH  # layout noise twice as likely as rough mutation

OP = st.tuples(st.integers(0, 200), st.integers(0, 400), st.integers(0, 60)).map(list)
OPS = st.lists(OP, min_size=0, max_size=8)

UNMODELLED = ['$WARNINGS NONE', '$SCATTERPLOT DV VS TIME ; a plot', '$SCAT (RES WRES) VS TIME BY ID', '$NONPARAMETRIC UNCONDITIONAL', '$MSFI msf1 ; restart']
LEAD_COMMENT = [';; 1. Based on: 5\n', '\n', '; header comment\n;; 2. Description: x\n', '   \n', ';\n']
LEAD_TEXT = ['Some free text\n', 'run 12 ', '\x00\n', 'Model file $PROBLEM in the middle\n', '\t']
VERBATIM = ['"  FIRST', '" COMMON /PRCOMG/ IDUM1,IDUM2', '"  WRITE(*,*) X ; not a comment', '"']
FULL_NAMES = {
    'PROBLEM': 'PROBLEM', 'INPUT': 'INPUT', 'DATA': 'DATA', 'SUBROUTINES': 'SUBROUTINES', 'PRED': 'PRED', 'ERROR': 'ERROR',
    'THETA': 'THETA', 'OMEGA': 'OMEGA', 'SIGMA': 'SIGMA', 'ESTIMATION': 'ESTIMATION', 'COVARIANCE': 'COVARIANCE',
    'TABLE': 'TABLE', 'ABBREVIATED': 'ABBREVIATED', 'SIMULATION': 'SIMULATION', 'MODEL': 'MODEL', 'SIZES': 'SIZES',
}


def _lines(text):
    return text.split('\n')


def _join(lines):
    return '\n'.join(lines)


def _record_lines(lines):
    return [i for i, ln in enumerate(lines) if record_start(ln) is not None]


def _kinds(lines):
    """kind of the record each line belongs to (None before the first record)"""
    out = []
    cur = None
    for ln in lines:
        nm = record_start(ln)
        if nm is not None:
            cur = canonical_record_name(nm) if nm else '$'
        out.append(cur)
    return out


def _depths(lines, kinds):
    """block nesting depth *after* each line of a code record (0 elsewhere)"""
    out = []
    d = 0
    for ln, k in zip(lines, kinds):
        if k not in CODE_KINDS or record_start(ln) is not None:
            d = 0
            out.append(0)
            continue
        code, _ = comment_split(ln)
        key = re.sub(r'[ \t\x00\r]+', '', code).upper()
        if re.match(r'^(IF\(.*\)THEN|DO(WHILE)?\(.*\))$', key):
            d += 1
        elif key in ('ENDIF', 'ENDDO'):
            d = max(0, d - 1)
        out.append(d)
    return out


def _nth_space(text, a, pred=None):
    pos = [i for i, ch in enumerate(text) if ch == ' ' and (pred is None or pred(i))]
    if not pos:
        return None
    return pos[a % len(pos)]


def _rename(line, new):
    m = re.match(r'([ \t]*\$)([A-Za-z]+)(.*)$', line, re.S)
    if not m:
        return line
    return m.group(1) + new + m.group(3)


def apply_op(text, op, pool=ALL):
    k, a, b = (list(op) + [0, 0, 0])[:3]
    if not all(isinstance(x, int) and not isinstance(x, bool) for x in (k, a, b)):
        return text
    name = pool[k % len(pool)]
    lines = _lines(text)
    n = len(lines)
    recl = _record_lines(lines)

    if name in ('tab', 'nul'):
        i = _nth_space(text, a)
        if i is None:
            return text
        return text[:i] + ('\t' if name == 'tab' else '\x00') + text[i + 1 :]
    if name == 'crlf':
        return re.sub(r'(?<!\r)\n', '\r\n', text)
    if name == 'crlf_one':
        pos = [m.start() for m in re.finditer(r'(?<!\r)\n', text)]
        if not pos:
            return text
        i = pos[a % len(pos)]
        return text[:i] + '\r' + text[i:]
    if name == 'comment_eol':
        cand = [i for i, ln in enumerate(lines) if '&' not in ln and '"' not in ln and (i < n - 1 or ln)]
        if not cand:
            return text
        i = cand[a % len(cand)]
        cr = '\r' if lines[i].endswith('\r') else ''
        body = lines[i][: len(lines[i]) - len(cr)]
        lines[i] = body + [' ; c', ';', ' ;; x=1 $y', '\t; (note) &'][b % 4] + cr
        return _join(lines)
    if name in ('comment_line', 'blank_line'):
        i = a % n if n else 0
        if i > 0 and comment_split(lines[i - 1])[0].rstrip(' \t\x00\r').endswith('&'):
            return text  # never between a continued line and its continuation
        cr = '\r' if (lines[i - 1].endswith('\r') if i > 0 else (lines[0].endswith('\r') and n > 1)) else ''
        new = ['; standalone', ';', '  ; indented comment', ';;;; $THETA 1'][b % 4] if name == 'comment_line' else ['', ' ', '\t', '  '][b % 4]
        lines.insert(i, new + cr)
        return _join(lines)
    if name == 'trail_ws':
        cand = [i for i, ln in enumerate(lines) if i < n - 1]
        if not cand:
            return text
        i = cand[a % len(cand)]
        cr = '\r' if lines[i].endswith('\r') else ''
        body = lines[i][: len(lines[i]) - len(cr)]
        lines[i] = body + [' ', '\t', '  \t ', '\x00'][b % 4] + cr
        return _join(lines)
    if name in ('abbr', 'lower', 'indent'):
        if not recl:
            return text
        i = recl[a % len(recl)]
        raw = record_start(lines[i])
        if not raw:
            return text
        if name == 'lower':
            lines[i] = _rename(lines[i], raw.lower() if b % 2 == 0 else raw.capitalize())
        elif name == 'indent':
            lines[i] = [' ', '\t', '   ', ' \t'][b % 4] + lines[i]
        else:
            full = canonical_record_name(raw)
            if full is None or len(full) <= 3 or not full.startswith(raw.upper()[:3]):
                return text
            # abbreviations with the same meaning for the reference and at least three letters
            cands = [full[:m] for m in range(3, len(full) + 1) if canonical_record_name(full[:m]) == full]
            new = cands[b % len(cands)]
            if raw.islower():
                new = new.lower()
            lines[i] = _rename(lines[i], new)
        return _join(lines)
    if name in ('cont_code', 'cont_any'):
        kinds = _kinds(lines)
        cand = []
        for i, ln in enumerate(lines):
            if name == 'cont_code' and (kinds[i] not in CODE_KINDS or record_start(ln) is not None):
                continue
            code, com = comment_split(ln)
            if code.lstrip(' \t').startswith('"') or '&' in code:
                continue
            body = code.rstrip(' \t\r')
            lead = len(body) - len(body.lstrip(' \t'))
            for j in range(lead + 1, len(body)):
                if body[j] == ' ' and body[j - 1] != ' ':
                    cand.append((i, j))
        if not cand:
            return text
        i, j = cand[a % len(cand)]
        cr = '\r' if lines[i].endswith('\r') else ''
        lines[i] = lines[i][:j] + [' &', '&', ' & ', '\t&\t'][b % 4] + cr + '\n' + '   ' + lines[i][j + 1 :]
        return _join(lines)
    if name == 'amp_eol':
        if not n:
            return text
        i = a % n
        lines[i] = lines[i] + ' &'
        return _join(lines)
    if name == 'verbatim':
        kinds = _kinds(lines)
        depth = _depths(lines, kinds)
        # after a complete top-level statement (not inside an IF/DO block, not inside a continued line)
        cand = [i for i in range(n) if kinds[i] in CODE_KINDS and '&' not in lines[i] and depth[i] == 0]
        if not cand:
            return text
        i = cand[a % len(cand)]
        cr = '\r' if lines[i].endswith('\r') else ''
        lines.insert(i + 1, VERBATIM[b % len(VERBATIM)] + cr)
        return _join(lines)
    if name == 'quote_line':
        if not n:
            return text
        i = a % n
        lines[i] = '"' + lines[i]
        return _join(lines)
    if name in ('unmodelled_record', 'foo_record'):
        cand = recl[1:] + [n - 1 if lines and lines[-1] == '' else n]
        i = cand[a % len(cand)]
        cr = '\r' if (i > 0 and lines[i - 1].endswith('\r')) else ''
        if name == 'foo_record':
            new = ['$FOO bar=1 (x) ; not a record', '$X', '$ 1', '$FOOBAR\n  more\n  lines ; c', '$PK2', '$THETAS 1'][b % 6]
        else:
            new = UNMODELLED[b % len(UNMODELLED)]
        lines.insert(i, new.replace('\n', cr + '\n') + cr)
        return _join(lines)
    if name == 'lead_comment':
        s = LEAD_COMMENT[b % len(LEAD_COMMENT)]
        if '\r\n' in text:
            s = s.replace('\n', '\r\n')
        return s + text
    if name == 'lead_text':
        return LEAD_TEXT[b % len(LEAD_TEXT)] + text
    if name == 'multi_est':
        kinds = _kinds(lines)
        cand = [i for i in recl if kinds[i] == 'ESTIMATION']
        if not cand:
            return text
        i = cand[-1]
        j = next((x for x in recl if x > i), n - 1 if lines and lines[-1] == '' else n)
        cr = '\r' if lines[i].endswith('\r') else ''
        new = ['$ESTIMATION METHOD=IMP EONLY=1 NITER=5 ISAMPLE=300', '$EST METH=SAEM NBURN=20 NITER=10 ; second', '$ESTIM METHOD=1 MAXEVAL=0 POSTHOC'][b % 3]
        lines.insert(j, new + cr)
        return _join(lines)
    if name == 'strip_final_nl':
        return text[:-1] if text.endswith('\n') else text
    if name == 'blank_tail':
        return text + ['\n', '\n\n', '   ', '\n;end', '\t\n'][b % 5]
    if name == 'del_line':
        if n <= 1:
            return text
        del lines[a % n]
        return _join(lines)
    if name == 'dup_line':
        if not n:
            return text
        i = a % n
        lines.insert(i, lines[i])
        return _join(lines)
    if name == 'swap_lines':
        if n < 2:
            return text
        i, j = a % n, (a + 1 + b) % n
        lines[i], lines[j] = lines[j], lines[i]
        return _join(lines)
    if name == 'move_comment':
        cand = [i for i, ln in enumerate(lines) if comment_split(ln)[1] is not None]
        if not cand or n < 2:
            return text
        i = cand[a % len(cand)]
        code, com = comment_split(lines[i])
        cr = '\r' if lines[i].endswith('\r') else ''
        lines[i] = code + cr
        j = (i + 1 + b) % n
        cr2 = '\r' if lines[j].endswith('\r') else ''
        body = lines[j][: len(lines[j]) - len(cr2)]
        lines[j] = body + ' ' + com + cr2
        return _join(lines)
    if name in ('lone_cr', 'nul_any', 'tab_any', 'del_char', 'semicolon_any'):
        if not text:
            return text
        i = a % (len(text) + 1) if name != 'del_char' else a % len(text)
        if name == 'del_char':
            return text[:i] + text[i + 1 :]
        ch = {'lone_cr': '\r', 'nul_any': '\x00', 'tab_any': '\t', 'semicolon_any': ';'}[name]
        return text[:i] + ch + text[i:]
    if name in ('dup_record', 'swap_records'):
        if not recl:
            return text
        bounds = recl + [n]
        chunks = [lines[bounds[x] : bounds[x + 1]] for x in range(len(recl))]
        head = lines[: recl[0]]
        # the last chunk owns the final '' produced by a trailing newline: keep it last
        tail = []
        if chunks and chunks[-1] and chunks[-1][-1] == '':
            tail = ['']
            chunks[-1] = chunks[-1][:-1]
        i = a % len(chunks)
        if name == 'dup_record':
            chunks.insert(i, list(chunks[i]))
        else:
            j = (i + 1 + b) % len(chunks)
            chunks[i], chunks[j] = chunks[j], chunks[i]
        return _join(head + [ln for ch in chunks for ln in ch] + tail)
    return text


def apply_ops(text, ops, pool=ALL, limit=8):
    if not isinstance(ops, list):
        return text
    for op in ops[:limit]:
        if isinstance(op, list):
            text = apply_op(text, op, pool)
    return text
