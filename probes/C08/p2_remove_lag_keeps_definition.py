# remove_lag_time leaves the lag time assignment (and its parameter) in the model
p = 'src/pharmpy/modeling/odes.py'
s = open(p).read()
old = "        statements = statements.remove_symbol_definitions(symbols, statements.ode_system)\n        model = model.replace(statements=statements)\n        model = remove_unused_parameters_and_rvs(model)\n    return model\n\n\ndef set_zero_order_absorption"
assert old in s
s = s.replace(old, "        model = model.replace(statements=statements)\n    return model\n\n\ndef set_zero_order_absorption")
open(p, 'w').write(s)
