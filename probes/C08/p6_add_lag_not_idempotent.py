# add_lag_time on a model with lag time keeps the old lag definition too (lag parameters pile up)
p = 'src/pharmpy/modeling/odes.py'
s = open(p).read()
old = "    if old_lag_time:\n        model = model.replace("
assert old in s
s = s.replace(old, "    if False:\n        model = model.replace(")
open(p, 'w').write(s)
