# has_zero_order_absorption always False
p = 'src/pharmpy/modeling/odes.py'
s = open(p).read()
old = "    dosing = odes.dosing_compartments[0]\n    dose = dosing.doses[0]\n    return _dose_zo(model, dose)\n"
assert old in s
s = s.replace(old, "    return False\n")
open(p, 'w').write(s)
