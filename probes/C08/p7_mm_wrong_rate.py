# Michaelis-Menten rate built with the wrong saturation term (KM + A instead of KM + A/V)
p = 'src/pharmpy/modeling/odes.py'
s = open(p).read()
old = "    rate = (clmm * km / (km + central.amount / vc) + cl) / vc"
assert old in s
s = s.replace(old, "    rate = (clmm * km / (km + central.amount) + cl) / vc")
open(p, 'w').write(s)
