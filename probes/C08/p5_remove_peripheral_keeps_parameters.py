# remove_peripheral_compartment forgets to remove the parameters of the removed compartment
p = 'src/pharmpy/modeling/odes.py'
s = open(p).read()
old = "        model = model.replace(\n            statements=model.statements.remove_symbol_definitions(\n                symbols, model.statements.ode_system\n            )\n        )\n        model = remove_unused_parameters_and_rvs(model)\n    return model\n\n\ndef set_ode_solver"
assert old in s
s = s.replace(old, "    return model\n\n\ndef set_ode_solver")
open(p, 'w').write(s)
