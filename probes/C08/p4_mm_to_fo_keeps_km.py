# set_first_order_elimination does nothing on a mixed MM-FO model
p = 'src/pharmpy/modeling/odes.py'
s = open(p).read()
old = "    elif has_mixed_mm_fo_elimination(model):\n        odes = model.statements.ode_system\n        assert odes is not None\n        central = odes.central_compartment\n        v = Expr.symbol('V')"
assert old in s
s = s.replace(old, "    elif False:\n        odes = model.statements.ode_system\n        assert odes is not None\n        central = odes.central_compartment\n        v = Expr.symbol('V')")
open(p, 'w').write(s)
