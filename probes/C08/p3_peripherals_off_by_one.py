# set_peripheral_compartments adds one compartment too few when increasing
p = 'src/pharmpy/modeling/odes.py'
s = open(p).read()
old = "        for _ in range(n - per):\n            model = add_peripheral_compartment(model, name=name)"
assert old in s
s = s.replace(old, "        for _ in range(n - per - 1):\n            model = add_peripheral_compartment(model, name=name)")
open(p, 'w').write(s)
