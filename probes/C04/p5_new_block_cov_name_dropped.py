# create_omega_block: the name comment of off-diagonal elements of a new BLOCK record is not written
p='src/pharmpy/model/external/nonmem/update.py'
s=open(p).read()
old="                if not re.match(f'{record_type}_{row + eta_number}_{col + eta_number}', omega.name):"
assert s.count(old) == 1
open(p,'w').write(s.replace(old,"                if row == col and not re.match(f'{record_type}_{row + eta_number}_{col + eta_number}', omega.name):"))
