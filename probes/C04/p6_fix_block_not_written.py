# OmegaRecord.update: FIX of a block that became fixed is not written
p='src/pharmpy/model/external/nonmem/records/omega_record.py'
s=open(p).read()
old="            if new_fix[0] != fix:\n                if new_fix[0]:\n                    tree = insert_after("
assert s.count(old) == 1
open(p,'w').write(s.replace(old,"            if new_fix[0] != fix:\n                if False:\n                    tree = insert_after("))
