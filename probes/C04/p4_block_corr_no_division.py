# OmegaRecord.update: covariances of a CORRELATION block are written without dividing by the standard deviations
p='src/pharmpy/model/external/nonmem/records/omega_record.py'
s=open(p).read()
old="A[i, j] = A[i, j] / (math.sqrt(A[i, i]) * math.sqrt(A[j, j]))"
assert s.count(old) == 1
open(p,'w').write(s.replace(old,"A[i, j] = A[i, j]"))
