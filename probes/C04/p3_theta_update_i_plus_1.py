# ThetaRecord.update: advances by one parameter per item instead of by the repeat count
p='src/pharmpy/model/external/nonmem/records/theta_record.py'
s=open(p).read()
old="            i += n\n\n            return theta"
assert s.count(old) == 1
open(p,'w').write(s.replace(old,"            i += 1\n\n            return theta"))
