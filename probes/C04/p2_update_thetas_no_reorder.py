# update_thetas: the diff is consumed without reorder_diff (a changed theta is seen as remove + add)
p='src/pharmpy/model/external/nonmem/update.py'
s=open(p).read()
old="new_diff = reorder_diff(diff_thetas, kept_theta_names)"
assert s.count(old) == 1
open(p,'w').write(s.replace(old,"new_diff = list(diff_thetas)"))
