# OmegaRecord.update: a changed variance of an "(x SD)" item is written without taking the square root
p='src/pharmpy/model/external/nonmem/records/omega_record.py'
s=open(p).read()
old="value = parameters[j].init ** 0.5"
assert s.count(old) == 1
open(p,'w').write(s.replace(old,"value = parameters[j].init"))
