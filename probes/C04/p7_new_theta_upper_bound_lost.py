# create_theta_record: a new theta with only an upper bound loses it
p='src/pharmpy/model/external/nonmem/update.py'
s=open(p).read()
old="            code += f'(-INF,{init},{upper})'"
assert s.count(old) == 1
open(p,'w').write(s.replace(old,"            code += f'{init}'"))
