# snapshot() no longer refuses while a transaction is pending: readers see half-written entries
p='src/pharmpy/workflows/model_database/local_directory.py'
s=open(p).read()
old="""            if path.exists():
                # TODO: Finish pending transaction from journal if possible
                raise PendingTransactionError()

            yield LocalModelDirectoryDatabaseSnapshot(self, obj)
"""
new="""            yield LocalModelDirectoryDatabaseSnapshot(self, obj)
"""
assert old in s
open(p,'w').write(s.replace(old,new))
