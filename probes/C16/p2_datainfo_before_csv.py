# the datainfo (the "dataset is complete" marker) is written before the csv
p='src/pharmpy/workflows/model_database/local_directory.py'
s=open(p).read()
old="""            model = write_csv(model, path=data_path, force=True)

            # NOTE: Write datainfo last so that we are "sure" dataset is there
            # if datainfo is there
            model.datainfo.to_json(datasets_path / (dataset_basename + '.datainfo'))
"""
new="""            model.datainfo.to_json(datasets_path / (dataset_basename + '.datainfo'))
            model = write_csv(model, path=data_path, force=True)
"""
assert old in s
open(p,'w').write(s.replace(old,new))
