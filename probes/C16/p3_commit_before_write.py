# the PENDING marker is removed (= commit) before the model and its results are written
p='src/pharmpy/workflows/model_database/local_directory.py'
s=open(p).read()
old="""            yield LocalModelDirectoryDatabaseTransaction(self, obj)

            # NOTE: Commit transaction (only if no exception was raised)
            path.unlink()
"""
new="""            path.unlink()
            yield LocalModelDirectoryDatabaseTransaction(self, obj)
"""
assert old in s
open(p,'w').write(s.replace(old,new))
