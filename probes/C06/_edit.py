"""helper for probe scripts: replace exactly one occurrence in a file below ./src/pharmpy"""
import sys


def sub(rel, old, new):
    p = 'src/pharmpy/' + rel
    s = open(p).read()
    if s.count(old) != 1:
        sys.exit(f'probe: expected exactly one occurrence in {rel}, found {s.count(old)}')
    open(p, 'w').write(s.replace(old, new))
