# Parameters.create no longer refuses duplicate names
import sys
sys.path.insert(0, '/verif/probes/C06')
from _edit import sub
sub('model/parameters.py', """            if p.name in names:
                raise ValueError(
                    f'Parameter names must be unique. Parameter "{p.name}" '
                    'was added more than once to Parameters'
                )
            names.add(p.name)""", """            names.add(p.name)""")
