# drop_columns works on the argument's DataFrame (no copy, in-place drop)
import os, sys
sys.path.insert(0, os.path.dirname(os.path.abspath(__file__)) if '__file__' in globals() else '/verif/probes/C06')
sys.path.insert(0, '/verif/probes/C06')
from _edit import sub
sub('modeling/data.py', """        df = model.dataset.copy()
        replace_dict['dataset'] = df.drop(to_drop, axis=1)""", """        df = model.dataset
        df.drop(to_drop, axis=1, inplace=True)
        replace_dict['dataset'] = df""")
