# update_source of a NONMEM model records into the name_map dict of the argument's internals
import sys
sys.path.insert(0, '/verif/probes/C06')
from _edit import sub
sub('model/external/nonmem/model.py', """        model = self

        if not model.random_variables.etas:""", """        model = self
        self.internals.name_map['C06_PROBE'] = 'X'

        if not model.random_variables.etas:""")
