# set_name renames the argument itself and returns it
import sys
sys.path.insert(0, '/verif/probes/C06')
from _edit import sub
sub('modeling/common.py', "    'run2'\n\n    \"\"\"\n    model = model.replace(name=new_name)\n    return model", "    'run2'\n\n    \"\"\"\n    model._name = new_name\n    return model")
