# set_name renames the argument itself and returns it
import sys
sys.path.insert(0, '/verif/probes/C06')
from _edit import sub
sub('modeling/common.py', """    model = model.replace(name=new_name)
    return model""", """    model._name = new_name
    return model""")
