# Model.__eq__ no longer compares the execution steps (the hash still includes them)
import sys
sys.path.insert(0, '/verif/probes/C06')
from _edit import sub
sub('model/model.py', """        if self.execution_steps != other.execution_steps:
            return False
""", "")
