# set_lloq_data assigns the DV column into the argument's DataFrame
import sys
sys.path.insert(0, '/verif/probes/C06')
from _edit import sub
sub('modeling/data.py', """    which_keep = _loq_mask(model, lloq=lloq, blq=blq)
    df = model.dataset.copy()
    dv = model.datainfo.dv_column.name""", """    which_keep = _loq_mask(model, lloq=lloq, blq=blq)
    df = model.dataset
    dv = model.datainfo.dv_column.name""")
