# replace_fixed_thetas: the constant is rounded to 2 significant digits
p='src/pharmpy/modeling/parameters.py'
s=open(p).read()
old="            ass = Assignment(p.symbol, Expr.float(p.init))\n"
assert old in s
open(p,'w').write(s.replace(old,"            ass = Assignment(p.symbol, Expr.float(float(f'{p.init:.2g}')))\n"))
