# solve_ode_system: closed form of every amount scaled by exp(-0.001*t) (no longer solves the ODE)
p='src/pharmpy/modeling/odes.py'
s=open(p).read()
old="                ass = Assignment.create(eq.lhs, eq.rhs)\n"
assert old in s
open(p,'w').write(s.replace(old,"                ass = Assignment.create(eq.lhs, eq.rhs * sympy.exp(-sympy.Rational(1, 1000) * odes.t))\n"))
