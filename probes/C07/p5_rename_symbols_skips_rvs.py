# rename_symbols: random variables are not renamed
p='src/pharmpy/modeling/common.py'
s=open(p).read()
old="        random_variables=model.random_variables.subs(d),\n"
assert old in s
open(p,'w').write(s.replace(old,"        random_variables=model.random_variables,\n"))
