# internals/expr/subs.py: symbols whose name starts with ETA are silently not substituted
p='src/pharmpy/internals/expr/subs.py'
s=open(p).read()
old="    _mapping = xreplace_dict(mapping)\n"
assert old in s
new="    _mapping = xreplace_dict(mapping)\n    _mapping = {k: v for k, v in _mapping.items() if not (isinstance(k, sympy.Symbol) and k.name.startswith('ETA'))}\n"
open(p,'w').write(s.replace(old,new,1))
