# convert_model(..., 'generic'): the last statement is lost
p='src/pharmpy/model/external/generic/generic.py'
s=open(p).read()
old="        statements=model.statements,\n"
assert old in s
open(p,'w').write(s.replace(old,"        statements=model.statements[:-1],\n"))
