# evaluate_individual_prediction: given etas are ignored (zeros used)
p='src/pharmpy/modeling/evaluation.py'
s=open(p).read()
old="""        if etas is None
        else etas
    )

    _df = df.join(_etas, on=idcol)

    ipred ="""
new="""        if etas is None
        else etas * 0
    )

    _df = df.join(_etas, on=idcol)

    ipred ="""
assert old in s
open(p,'w').write(s.replace(old,new))
