# mu_reference_model: wrong sign of the solved mu
p='src/pharmpy/modeling/expressions.py'
s=open(p).read()
old="            mu_expr = sympy.solve(old_def - new_def, mu)[0]\n"
assert old in s
open(p,'w').write(s.replace(old,"            mu_expr = -sympy.solve(old_def - new_def, mu)[0]\n"))
