# get_population_prediction_expression: the first eta is not set to 0
p='src/pharmpy/modeling/expressions.py'
s=open(p).read()
old="        {Expr.symbol(eta): 0 for eta in model.random_variables.etas.names}\n"
assert old in s
open(p,'w').write(s.replace(old,"        {Expr.symbol(eta): 0 for eta in model.random_variables.etas.names[1:]}\n"))
