# make_declarative: the last definition of a re-assigned symbol is kept without substituting the earlier ones
p='src/pharmpy/modeling/expressions.py'
s=open(p).read()
old="""                else:
                    ass = Assignment.create(s.symbol, s.expression.subs(current))
                    newstats.append(ass)
                    del current[s.symbol]
"""
new="""                else:
                    ass = Assignment.create(s.symbol, s.expression)
                    newstats.append(ass)
                    del current[s.symbol]
"""
assert old in s
open(p,'w').write(s.replace(old,new))
