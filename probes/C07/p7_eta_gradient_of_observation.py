# calculate_eta_gradient_expression: differentiates w.r.t. the wrong (next) eta
p='src/pharmpy/modeling/expressions.py'
s=open(p).read()
old="    d = [y.diff(Expr.symbol(x)) for x in model.random_variables.etas.names]\n"
assert old in s
new="    names = model.random_variables.etas.names\n    d = [y.diff(Expr.symbol(x)) for x in names[1:] + names[:1]]\n"
open(p,'w').write(s.replace(old,new))
