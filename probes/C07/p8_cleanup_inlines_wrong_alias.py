# cleanup_model: alias inlining keeps the alias statement's symbol but substitutes the alias by itself squared
p='src/pharmpy/modeling/expressions.py'
s=open(p).read()
old="            current[s.symbol] = s.expression\n        else:\n            n = s.subs(current)\n"
assert old in s
open(p,'w').write(s.replace(old,"            current[s.symbol] = s.expression * 2\n        else:\n            n = s.subs(current)\n"))
