# replace_non_random_rvs: constant random variables replaced by 1 instead of 0
p='src/pharmpy/modeling/random_variables.py'
s=open(p).read()
old="                d[Expr.symbol(name)] = Expr.integer(0)\n"
assert old in s
open(p,'w').write(s.replace(old,"                d[Expr.symbol(name)] = Expr.integer(1)\n"))
