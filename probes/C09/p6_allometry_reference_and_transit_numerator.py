# extra: allometry divides by reference+1 ; transit rate (n+1)/MDT
p='src/pharmpy/modeling/allometry.py'
s=open(p).read()
old="expr = p * (variable / reference) ** param.symbol"
assert old in s
open(p,'w').write(s.replace(old,"expr = p * (variable / (reference + 1)) ** param.symbol"))
p='src/pharmpy/modeling/odes.py'
s=open(p).read()
old="        rate = n / mdt_symb\n"
assert old in s
open(p,'w').write(s.replace(old,"        rate = (n + 1) / mdt_symb\n"))
