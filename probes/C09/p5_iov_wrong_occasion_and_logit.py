# extra: logit IIV without the denominator +1 ; IOV eta multiplied by 2
p='src/pharmpy/modeling/parameter_variability.py'
s=open(p).read()
old="etais.append(Assignment.create(etai, Expr.symbol(eta) + iov))"
assert old in s
s=s.replace(old,"etais.append(Assignment.create(etai, Expr.symbol(eta) + 2 * iov))")
open(p,'w').write(s)
