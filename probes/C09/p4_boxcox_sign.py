# DESIGN probe: flip sign in boxcox
p='src/pharmpy/modeling/parameter_variability.py'
s=open(p).read()
old="expression = (Expr.exp(Expr.symbol(f'eta{i}')) ** Expr.symbol(f'theta{i}') - 1) / ("
assert old in s
open(p,'w').write(s.replace(old,"expression = (Expr.exp(Expr.symbol(f'eta{i}')) ** Expr.symbol(f'theta{i}') + 1) / ("))
