# extra: zero order duration = MAT (instead of 2*MAT); combined error on log scale: eps_add not divided by f
p='src/pharmpy/modeling/odes.py'
s=open(p).read()
old="duration=mat_symb * 2)"
assert old in s
open(p,'w').write(s.replace(old,"duration=mat_symb)"))
p='src/pharmpy/modeling/error.py'
s=open(p).read()
old="error_expr = f_dummy.log() + ruv_prop + ruv_add / f_dummy"
assert old in s
open(p,'w').write(s.replace(old,"error_expr = f_dummy.log() + ruv_prop + ruv_add"))
