# extra: set_iiv_on_ruv multiplies with exp(2*eta); use_thetas_for_error_stdev uses theta**2
p='src/pharmpy/modeling/error.py'
s=open(p).read()
old="            * Expr.symbol(eta_dict[e].names[0]).exp()\n"
assert old in s
s=s.replace(old,"            * (2 * Expr.symbol(eta_dict[e].names[0])).exp()\n")
old="model = model.replace(statements=model.statements.subs({symb: sdsymb * symb}))"
assert old in s
s=s.replace(old,"model = model.replace(statements=model.statements.subs({symb: sdsymb * sdsymb * symb}))")
open(p,'w').write(s)
