# extra: categorical template takes the least common category as reference
p='src/pharmpy/modeling/covariate_effect.py'
s=open(p).read()
old="        most_common = counts.idxmax()\n"
assert old in s
open(p,'w').write(s.replace(old,"        most_common = counts.idxmin()\n"))
