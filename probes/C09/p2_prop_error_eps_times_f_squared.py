# DESIGN probe: proportional error multiplies eps into f**2
p='src/pharmpy/modeling/error.py'
s=open(p).read()
old="error_expr = f_dummy + ipred * ruv if zero_protection else f_dummy + f_dummy * ruv"
assert old in s
open(p,'w').write(s.replace(old,"error_expr = f_dummy + ipred * f_dummy * ruv if zero_protection else f_dummy + f_dummy * f_dummy * ruv"))
