# DESIGN probe: centre `lin` (every template using `median`) on the mean instead of the median
p='src/pharmpy/modeling/covariate_effect.py'
s=open(p).read()
old="    statistics['median'] = _calculate_median(model, covariate)\n"
assert old in s
open(p,'w').write(s.replace(old,"    statistics['median'] = _calculate_mean(model.dataset, covariate)\n"))
