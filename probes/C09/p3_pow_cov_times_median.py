# DESIGN probe: `pow` uses cov*median
p='src/pharmpy/modeling/covariate_effect.py'
s=open(p).read()
old="expression = (Expr.symbol('cov') / Expr.symbol('median')) ** Expr.symbol('theta')"
assert old in s
open(p,'w').write(s.replace(old,"expression = (Expr.symbol('cov') * Expr.symbol('median')) ** Expr.symbol('theta')"))
