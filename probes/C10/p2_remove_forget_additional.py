p='src/pharmpy/model/statements.py'
s=open(p).read()
old="        remove = candidates - additional\n"
assert old in s
open(p,'w').write(s.replace(old,"        remove = candidates\n"))
