p='src/pharmpy/model/statements.py'
s=open(p).read()
old="""            for j in range(i - 1, -1, -1):
                statement = self[j]
                if isinstance(statement, Assignment):
                    if statement.symbol in rhs:
                        graph.add_edge(i, j)
"""
new="""            seen = set()
            for j in range(0, i):
                statement = self[j]
                if isinstance(statement, Assignment):
                    if statement.symbol in rhs and statement.symbol not in seen:
                        seen.add(statement.symbol)
                        graph.add_edge(i, j)
"""
assert old in s
open(p,'w').write(s.replace(old,new))
