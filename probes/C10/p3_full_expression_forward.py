p='src/pharmpy/model/statements.py'
s=open(p).read()
old="        for statement in reversed(self):\n            if isinstance(statement, CompartmentalSystem):\n                raise ValueError(\n                    \"CompartmentalSystem not supported by full_expression"
assert old in s
open(p,'w').write(s.replace(old,old.replace("reversed(self)","self")))
