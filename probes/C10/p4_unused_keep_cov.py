p='src/pharmpy/modeling/common.py'
s=open(p).read()
old="                if symb not in symbols and symbols.isdisjoint(params):"
assert old in s
open(p,'w').write(s.replace(old,"                if symb not in symbols and symbols.isdisjoint(params) and i > 0:"))
