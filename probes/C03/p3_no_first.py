p='src/pharmpy/model/external/nonmem/nmtran_parser.py'
s=open(p).read()
old="""        if first:
            records.append(RawRecord(first))
"""
new="""        # probe: text before the first record is dropped
"""
assert old in s
open(p,'w').write(s.replace(old,new))
