p='src/pharmpy/model/external/nonmem/records/code_record.py'
s=open(p).read()
old="""            # NOTE: We copy interleaved non-statement nodes
            new_children.extend(self.root.children[last_node_index:ni])
"""
new="""            # probe: interleaved non-statement nodes (comments, verbatim, blank lines) are dropped
"""
assert old in s
open(p,'w').write(s.replace(old,new))
