p='src/pharmpy/internals/parse/ignored.py'
s=open(p).read()
old="""            yield Token('COMMENT', s[i:head], start_pos=i, end_pos=head)
"""
new="""            pass  # probe: comments between tokens are not re-inserted
"""
assert old in s
open(p,'w').write(s.replace(old,new))
