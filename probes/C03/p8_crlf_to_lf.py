p='src/pharmpy/internals/parse/ignored.py'
s=open(p).read()
old="""            yield Token('NEWLINE', s[i:head], start_pos=i, end_pos=head)

        elif first == '\\n':"""
new="""            yield Token('NEWLINE', '\\n', start_pos=i, end_pos=head)

        elif first == '\\n':"""
assert old in s
open(p,'w').write(s.replace(old,new))
