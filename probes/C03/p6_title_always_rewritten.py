p='src/pharmpy/model/external/nonmem/update.py'
s=open(p).read()
old="""def update_description(control_stream, old, new):
    if new != old:
"""
new="""def update_description(control_stream, old, new):
    if True:  # probe
"""
assert old in s
open(p,'w').write(s.replace(old,new))
