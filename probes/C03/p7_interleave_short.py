p='src/pharmpy/internals/parse/ignored.py'
s=open(p).read()
old="""    return children if len(children) < 2 else list(_interleave_ignored(source, iter(children)))
"""
new="""    return children if len(children) < 3 else list(_interleave_ignored(source, iter(children)))
"""
assert old in s
open(p,'w').write(s.replace(old,new))
