p='src/pharmpy/model/external/nonmem/records/code_record.py'
s=open(p).read()
old="""        new_children.extend(self.root.children[last_node_index:])
"""
new="""        # probe: remaining non-statement nodes are not copied
"""
assert old in s
open(p,'w').write(s.replace(old,new))
