p='src/pharmpy/model/external/nonmem/records/theta_record.py'
s=open(p).read()
old="""            if eval_token(init.leaf('NUMERIC')) != new_init:
                init = init.replace_first(AttrToken('NUMERIC', str(new_init)))
"""
new="""            if True:  # probe: every initial estimate of an updated record is respelled
                init = init.replace_first(AttrToken('NUMERIC', str(float(new_init))))
"""
assert old in s
open(p,'w').write(s.replace(old,new))
