p='src/pharmpy/internals/parse/ignored.py'
s=open(p).read()
old="""            yield Token('WS', s[i:head], start_pos=i, end_pos=head)
"""
new="""            yield Token('WS', s[i:head].replace('\\x00', ''), start_pos=i, end_pos=head)
"""
assert old in s
open(p,'w').write(s.replace(old,new))
